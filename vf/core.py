"""Core of the verification harness: Violation, Collector, Hypothesis drivers.

Everything a property module (vf/props/cNN.py) needs:

    from vf.core import Violation, drive, drive_machine, fp

A property module defines

    PROPERTY = "C10"
    LEVEL = "exploration"
    RULE = "how cases are generated + what makes one non-trivial/distinct"
    ASSUMPTIONS = [...]
    TOLERANCE = "rel 1e-5" (optional, free text)
    def shards(tier: str, seed: int) -> list[dict]      # JSON-able shard descriptors
    def run_shard(shard: dict, col: Collector) -> None  # runs inside a worker process
    def replay(desc: dict, col: Collector) -> None      # raise Violation if desc fails
    EXHAUSTIVE = False (optional; or set col.exhaustive in run_shard)

Inside run_shard a module either loops over a finite domain calling
``col.run_case(desc, check)`` or calls ``drive(strategy, check, ...)`` which wraps
Hypothesis.  ``check(desc, col)`` must raise ``Violation`` when the oracle disagrees
and must call ``col.case(...)`` once to classify the case.
"""

from __future__ import annotations

import hashlib
import json
import os
import time
import traceback
from collections import Counter
from typing import Any, Callable


class Violation(Exception):
    """The oracle disagrees with the code under test."""

    def __init__(self, message: str, key: str | None = None):
        super().__init__(message)
        self.message = message
        self.key = key or "unkeyed"


class HarnessError(Exception):
    """The harness itself is broken (bad generator, oracle crashed...)."""


def fp(obj: Any) -> str:
    """Stable fingerprint of a JSON-able object."""
    s = json.dumps(obj, sort_keys=True, default=repr)
    return hashlib.sha1(s.encode()).hexdigest()[:16]


def hash32(*parts: Any) -> int:
    s = "|".join(str(p) for p in parts)
    return int.from_bytes(hashlib.sha256(s.encode()).digest()[:4], "big")


def jsonable(x: Any) -> Any:
    """Best-effort conversion to plain JSON types (for samples / replay files)."""
    try:
        json.dumps(x)
        return x
    except TypeError:
        pass
    if isinstance(x, dict):
        return {str(k): jsonable(v) for k, v in x.items()}
    if isinstance(x, (list, tuple, set, frozenset)):
        return [jsonable(v) for v in x]
    try:
        import numpy as np

        if isinstance(x, np.generic):
            return x.item()
        if isinstance(x, np.ndarray):
            return x.tolist()
    except Exception:
        pass
    if isinstance(x, float):
        return x
    return repr(x)


class Collector:
    """Counts what a shard generated; serialised to the shard's partial result."""

    MAX_SAMPLES = 6
    MAX_FPS = 200000

    def __init__(self, known_keys: set[str] | None = None, budget_s: float | None = None):
        self.evaluations = 0
        self.nontrivial_fps: set[str] = set()
        self.labels: Counter = Counter()
        self.samples: list = []
        self.failures: list[dict] = []
        self.errors: list[str] = []
        self.rejected = 0
        self.excluded_known = 0
        self.excluded_keys: Counter = Counter()
        self.budget_hit = False
        self.exhaustive: bool | None = None
        self.extra: dict = {}
        self.known_keys = set(known_keys or ())
        self.t0 = time.time()
        self.budget_s = budget_s

    # -- classification -------------------------------------------------
    def case(self, fingerprint: Any, nontrivial: bool, labels=(), sample: Any = None):
        """Record one generated case. ``fingerprint``: JSON-able identity of the case."""
        self.evaluations += 1
        for lab in labels:
            self.labels[str(lab)] += 1
        if nontrivial:
            f = fingerprint if isinstance(fingerprint, str) and len(fingerprint) == 16 else fp(fingerprint)
            new = f not in self.nontrivial_fps
            if len(self.nontrivial_fps) < self.MAX_FPS:
                self.nontrivial_fps.add(f)
            if new and sample is not None and len(self.samples) < self.MAX_SAMPLES:
                self.samples.append(jsonable(sample))
        elif sample is not None and not self.samples:
            # keep at least one sample even if trivial; replaced by non-trivial later
            pass

    def label(self, *labels):
        for lab in labels:
            self.labels[str(lab)] += 1

    def reject(self, why: str = "rejected"):
        self.rejected += 1
        self.labels["rejected:" + why] += 1

    def over_budget(self) -> bool:
        if self.budget_s is not None and time.time() - self.t0 > self.budget_s:
            self.budget_hit = True
            return True
        return False

    # -- failures ---------------------------------------------------------
    def fail(self, desc: Any, message: str, key: str):
        self.failures.append({"descriptor": jsonable(desc), "message": message, "key": key})

    def run_case(self, desc: Any, check: Callable[[Any, "Collector"], None]) -> bool:
        """Run ``check`` on one descriptor outside Hypothesis (finite enumeration,
        replays). Returns True if it passed."""
        try:
            check(desc, self)
            return True
        except Violation as v:
            if v.key in self.known_keys:
                self.excluded_known += 1
                self.excluded_keys[v.key] += 1
                return True
            self.fail(desc, v.message, v.key)
            return False

    def to_json(self) -> dict:
        return {
            "evaluations": self.evaluations,
            "nontrivial_fps": sorted(self.nontrivial_fps),
            "labels": dict(self.labels),
            "samples": self.samples,
            "failures": self.failures,
            "errors": self.errors,
            "rejected": self.rejected,
            "excluded_known": self.excluded_known,
            "excluded_keys": dict(self.excluded_keys),
            "budget_hit": self.budget_hit,
            "exhaustive": self.exhaustive,
            "extra": jsonable(self.extra),
            "wall_s": time.time() - self.t0,
        }


# ---------------------------------------------------------------------------
# Hypothesis drivers
# ---------------------------------------------------------------------------

def _settings(n: int, shrink: bool, **kw):
    from hypothesis import HealthCheck, Phase, settings

    phases = [Phase.explicit, Phase.generate]
    if shrink:
        phases.append(Phase.shrink)
    return settings(
        max_examples=n,
        database=None,
        deadline=None,
        derandomize=False,
        report_multiple_bugs=False,
        suppress_health_check=list(HealthCheck),
        phases=phases,
        print_blob=False,
        **kw,
    )


def drive(
    strategy,
    check: Callable[[Any, Collector], None],
    *,
    n: int,
    seed: int,
    col: Collector,
    shrink: bool = True,
    max_failures: int = 3,
    keep_minimal: bool = False,
):
    """Run ``check(desc, col)`` on ``n`` Hypothesis-generated descriptors.

    ``check`` raises Violation on oracle disagreement.  Violations whose key is an open
    known finding are counted (excluded_known) and treated as passes so the search goes
    on.  Each distinct new key is shrunk and recorded (at most ``max_failures`` keys;
    after a key has been recorded further hits of the same key are counted only), so a
    shallow defect does not hide what lies behind it.
    """
    import hypothesis
    from hypothesis import given

    seen_keys: set[str] = set()
    for attempt in range(max_failures):
        last: dict = {}
        state = {"first": True}

        # Hypothesis always starts with the all-minimal example; with 16 shards that is the same
        # case 16 times, so only shard-attempt 0 ... keeps it: every run spends one extra example
        # and skips the first one unless the caller asks for it (keep_minimal).
        @hypothesis.seed(hash32(seed, attempt))
        @_settings(n + (0 if keep_minimal else 1), shrink)
        @given(strategy)
        def t(desc):
            if state["first"]:
                state["first"] = False
                if not keep_minimal:
                    col.labels["skipped_minimal_example"] += 1
                    return
            if col.over_budget():
                return
            try:
                check(desc, col)
            except Violation as v:
                if v.key in col.known_keys:
                    col.excluded_known += 1
                    col.excluded_keys[v.key] += 1
                    return
                if v.key in seen_keys:
                    col.labels["repeat_failure:" + v.key] += 1
                    return
                last["desc"], last["msg"], last["key"] = desc, v.message, v.key
                raise

        try:
            t()
        except Violation:
            col.fail(last["desc"], last["msg"], last["key"])
            seen_keys.add(last["key"])
            continue
        except hypothesis.errors.Unsatisfiable as e:  # generator produced nothing
            raise HarnessError(f"generator unsatisfiable: {e}")
        break


def drive_machine(machine_cls, *, n: int, steps: int, seed: int, col: Collector, shrink: bool = True):
    """Run a RuleBasedStateMachine; the machine records its own history in
    ``self.history`` (JSON-able list) and raises Violation from rules/invariants."""
    import hypothesis
    from hypothesis.stateful import run_state_machine_as_test

    last: dict = {}
    orig_init = machine_cls.__init__

    class M(machine_cls):
        def __init__(self):
            orig_init(self)
            self.col = col
            last["machine"] = self

    M.__name__ = machine_cls.__name__
    M.__qualname__ = machine_cls.__qualname__
    try:
        run_state_machine_as_test(
            hypothesis.seed(seed)(M), settings=_settings(n, shrink, stateful_step_count=steps)
        )
    except Violation as v:
        m = last.get("machine")
        hist = getattr(m, "history", None)
        if v.key in col.known_keys:
            col.excluded_known += 1
            col.excluded_keys[v.key] += 1
            return
        col.fail({"history": jsonable(hist)}, v.message, v.key)


def must(fn: Callable, *a, what: str = "", key: str | None = None, **kw):
    """Call code under test that the property says must succeed; turn a crash into a
    Violation (keyed by exception type) rather than a harness error."""
    try:
        return fn(*a, **kw)
    except Violation:
        raise
    except Exception as e:  # noqa: BLE001
        tb = traceback.format_exc(limit=6)
        raise Violation(
            f"{what or getattr(fn, '__name__', 'call')} raised {type(e).__name__}: {e}\n{tb}",
            key=key or f"crash:{type(e).__name__}",
        )


def close(a: float, b: float, rel: float = 1e-5, abs_: float = 1e-9) -> bool:
    import math

    if a == b:
        return True
    if math.isinf(a) or math.isinf(b) or math.isnan(a) or math.isnan(b):
        return False
    return abs(a - b) <= max(abs_, rel * max(abs(a), abs(b)))
