"""CLI: ./check <ID> --tier quick|thorough [--replay <file>] [--jobs N]

exit 0: property held on everything explored (KNOWN-FINDING lines allowed)
exit 1: at least one line  VIOLATION property=<id> replay=<path>
exit 2: harness error (never reported as a violation)
"""

from __future__ import annotations

import argparse
import importlib
import json
import os
import shutil
import subprocess
import sys
import time
from collections import Counter
from concurrent.futures import ThreadPoolExecutor
from pathlib import Path

ROOT = Path(__file__).resolve().parents[1]
PY = "/venv/bin/python"
# The tree under test. Registered commands never set VF_REPO, so this is /repo; scratch
# worktrees are used only for sensitivity (mutation) experiments.
REPO = os.path.abspath(os.environ.get("VF_REPO", "/repo"))


def load_known(prop: str):
    p = ROOT / "known_findings.json"
    if not p.exists():
        return []
    data = json.loads(p.read_text())
    return [f for f in data.get("findings", []) if f.get("property") == prop]


def run_worker(prop: str, shard: dict, workdir: Path, idx: int, hard_timeout: float):
    sd = workdir / f"s{idx}"
    sd.mkdir(parents=True, exist_ok=True)
    shard_path = sd / "shard.json"
    out_path = sd / "out.json"
    shard_path.write_text(json.dumps(shard))
    env = dict(os.environ)
    env["TMPDIR"] = str(sd)
    env["PYTHONPATH"] = REPO + ":" + str(ROOT) + (":" + env["PYTHONPATH"] if env.get("PYTHONPATH") else "")
    env["VF_REPO"] = REPO
    env.setdefault("PYTHONHASHSEED", "0")
    env["PYTHONDONTWRITEBYTECODE"] = "1"
    env.setdefault("OMP_NUM_THREADS", "1")
    env.setdefault("NUMBA_NUM_THREADS", "1")
    env.update(shard.get("_env", {}))
    log = open(sd / "log.txt", "w")
    t0 = time.time()
    try:
        p = subprocess.run(
            [PY, "-m", "vf.worker", prop, str(shard_path), str(out_path)],
            cwd=str(sd), env=env, stdout=log, stderr=subprocess.STDOUT, timeout=hard_timeout,
            start_new_session=True,
        )
        rc = p.returncode
    except subprocess.TimeoutExpired:
        rc = "timeout"
    log.close()
    res = None
    if out_path.exists():
        try:
            res = json.loads(out_path.read_text())
        except Exception:  # noqa: BLE001
            res = None
    if res is None:
        tail = (sd / "log.txt").read_text()[-3000:]
        if rc == "timeout":
            res = {"timeout": True}
        else:
            res = {"errors": [f"worker {idx} rc={rc} produced no result\n{tail}"]}
    res["_shard"] = idx
    res["_wall"] = time.time() - t0
    # free scratch early (pkl litter can be large)
    for child in sd.iterdir():
        if child.name not in ("log.txt",):
            if child.is_dir():
                shutil.rmtree(child, ignore_errors=True)
            else:
                try:
                    child.unlink()
                except OSError:
                    pass
    return res


def main(argv=None):
    ap = argparse.ArgumentParser()
    ap.add_argument("prop")
    ap.add_argument("--tier", default=os.environ.get("VERIF_TIER", "quick"), choices=["quick", "thorough"])
    ap.add_argument("--replay", default=None)
    ap.add_argument("--jobs", type=int, default=min(16, os.cpu_count() or 1))
    ap.add_argument("--keep-work", action="store_true")
    args = ap.parse_args(argv)
    prop = args.prop.upper()
    seed = int(os.environ.get("VERIF_SEED", "1") or "1")
    t0 = time.time()

    try:
        mod = importlib.import_module(f"vf.props.{prop.lower()}")
    except Exception as e:  # noqa: BLE001
        print(f"HARNESS-ERROR property={prop} cannot import module: {e!r}")
        return 2

    known = load_known(prop)
    open_known = [k for k in known if k.get("status") == "open"]
    known_keys = sorted({k["key"] for k in open_known})

    workdir = ROOT / ".work" / f"{prop}.{os.getpid()}"
    if workdir.exists():
        shutil.rmtree(workdir, ignore_errors=True)
    workdir.mkdir(parents=True)

    try:
        return _main(args, prop, seed, t0, mod, known, open_known, known_keys, workdir)
    finally:
        if not args.keep_work:
            shutil.rmtree(workdir, ignore_errors=True)
            try:
                (ROOT / ".work").rmdir()
            except OSError:
                pass


def _main(args, prop, seed, t0, mod, known, open_known, known_keys, workdir):
    tier = args.tier
    quick_budget = getattr(mod, "QUICK_BUDGET_S", 300)
    thorough_budget = getattr(mod, "THOROUGH_BUDGET_S", 2400)
    budget = quick_budget if tier == "quick" else thorough_budget

    shards: list[dict] = []
    if args.replay:
        item = json.loads(Path(args.replay).read_text())
        shards.append({"_kind": "replay", "items": [{"name": str(args.replay), "descriptor": item["descriptor"]}]})
    else:
        # 1. regression replays (+ stored replays of known findings)
        items = []
        rdir = ROOT / "regress" / prop
        if rdir.is_dir():
            for f in sorted(rdir.glob("*.json")):
                items.append({"name": f"regress/{prop}/{f.name}", "descriptor": json.loads(f.read_text())["descriptor"]})
        if items:
            shards.append({"_kind": "replay", "items": items})
        # 2. generated shards
        for s in mod.shards(tier, seed):
            s = dict(s)
            s["_known_keys"] = known_keys
            s.setdefault("_budget_s", budget)
            shards.append(s)

    hard = budget * 1.5 + 180
    with ThreadPoolExecutor(max_workers=max(1, args.jobs)) as ex:
        futs = [ex.submit(run_worker, prop, s, workdir, i, hard) for i, s in enumerate(shards)]
        results = [f.result() for f in futs]

    # ---- merge -------------------------------------------------------------
    evaluations = 0
    fps: set[str] = set()
    labels: Counter = Counter()
    samples: list = []
    failures: list[dict] = []
    errors: list[str] = []
    rejected = excluded = 0
    excluded_keys: Counter = Counter()
    budget_hit = False
    exhaustive_flags = []
    extra: dict = {}
    replayed_ok: list[str] = []
    for r in results:
        if r.get("timeout"):
            budget_hit = True
            continue
        evaluations += r.get("evaluations", 0)
        fps.update(r.get("nontrivial_fps", []))
        labels.update(r.get("labels", {}))
        for s in r.get("samples", []):
            if len(samples) < 10:
                samples.append(s)
        failures.extend(r.get("failures", []))
        errors.extend(r.get("errors", []))
        rejected += r.get("rejected", 0)
        excluded += r.get("excluded_known", 0)
        excluded_keys.update(r.get("excluded_keys", {}))
        budget_hit = budget_hit or r.get("budget_hit", False)
        if r.get("exhaustive") is not None:
            exhaustive_flags.append(bool(r["exhaustive"]))
        ex_ = r.get("extra") or {}
        replayed_ok.extend(ex_.pop("replayed_ok", []))
        for k, v in ex_.items():
            if isinstance(v, (int, float)) and not isinstance(v, bool):
                extra[k] = extra.get(k, 0) + v
            elif isinstance(v, list):
                extra.setdefault(k, [])
                if len(extra[k]) < 20:
                    extra[k].extend(v[: 20 - len(extra[k])])
            else:
                extra.setdefault(k, v)

    # ---- classify failures ---------------------------------------------------
    lines: list[str] = []
    violations = []
    known_hit: dict[str, dict] = {}
    # one violation per root-cause key: keep the smallest failing input of each key
    by_key: dict[str, dict] = {}
    n_failing_inputs = 0
    for f in failures:
        if f["key"] in known_keys:
            known_hit[f["key"]] = f
            continue
        n_failing_inputs += 1
        size = len(json.dumps(f["descriptor"], sort_keys=True, default=repr))
        if f["key"] not in by_key or size < by_key[f["key"]]["_size"]:
            by_key[f["key"]] = {**f, "_size": size}
    for k in sorted(by_key):
        v = dict(by_key[k])
        v.pop("_size")
        violations.append(v)

    rep_dir = ROOT / "evidence" / "replays"
    for v in violations:
        rep_dir.mkdir(parents=True, exist_ok=True)
        from vf.core import fp

        name = f"{prop}-{fp([v['key'], v['descriptor']])}.json"
        path = rep_dir / name
        path.write_text(json.dumps({"property": prop, "key": v["key"], "message": v["message"],
                                    "descriptor": v["descriptor"], "seed": seed, "tier": tier}, indent=1))
        lines.append(f"VIOLATION property={prop} replay={path.relative_to(ROOT)}")
        print(lines[-1])
        print("  key=" + v["key"])
        print("  " + v["message"].replace("\n", "\n  ")[:2000])

    # known findings: run their stored replays only in normal mode
    if not args.replay:
        for k in open_known:
            hit = k["key"] in known_hit or excluded_keys.get(k["key"], 0) > 0
            rp = k.get("replay")
            reproduced = hit
            if rp and (ROOT / rp).exists() and not hit:
                r = run_worker(prop, {"_kind": "replay", "items": [
                    {"name": rp, "descriptor": json.loads((ROOT / rp).read_text())["descriptor"]}]},
                    workdir, 9000 + len(lines), 600)
                reproduced = any(f["key"] == k["key"] for f in r.get("failures", []))
                for f in r.get("failures", []):
                    if f["key"] not in known_keys:
                        errors.append(f"known-finding replay {rp} failed with unlisted key {f['key']}")
                errors.extend(r.get("errors", []))
            if reproduced:
                print(f"KNOWN-FINDING: property={prop} {k['what']}")
            else:
                print(f"NOTE: known finding {k['key']} did not reproduce on this tree")

    nontrivial = len(fps)
    exhaustive = bool(exhaustive_flags) and all(exhaustive_flags) and not budget_hit and bool(
        getattr(mod, "EXHAUSTIVE", True))
    coverage = {
        "evaluations": evaluations,
        "distinct_nontrivial": nontrivial,
        "rule": getattr(mod, "RULE", ""),
        "samples": samples[:10],
        "exhaustive": exhaustive,
        "labels": dict(sorted(labels.items(), key=lambda kv: (-kv[1], kv[0]))[:60]),
        "rejected_by_generator_guards": rejected,
        "excluded_known": excluded,
        "excluded_known_keys": dict(excluded_keys),
        "inconclusive_budget": budget_hit,
        "shards": len(shards),
        "tree_under_test": REPO,
        "regressions_replayed_ok": len(replayed_ok),
    }
    if getattr(mod, "TOLERANCE", None):
        coverage["tolerance"] = mod.TOLERANCE
    coverage.update({k: v for k, v in extra.items() if k not in coverage})
    ev = {
        "property_id": prop,
        "tier": tier,
        "seed": seed,
        "level": getattr(mod, "LEVEL", "exploration"),
        "coverage": coverage,
        "assumptions": list(getattr(mod, "ASSUMPTIONS", [])),
        "wall_s": round(time.time() - t0, 2),
        "violations": len(violations),
    }
    if not args.replay:
        (ROOT / "evidence").mkdir(exist_ok=True)
        # runs against a scratch worktree (mutation experiments) never overwrite real evidence
        name = f"{prop}.json" if REPO == "/repo" else f"scratch-{prop}.json"
        (ROOT / "evidence" / name).write_text(json.dumps(ev, indent=1, default=repr) + "\n")

    print(f"{prop} tier={tier} seed={seed} evaluations={evaluations} distinct_nontrivial={nontrivial} "
          f"violations={len(violations)} excluded_known={excluded} rejected={rejected} "
          f"budget_hit={budget_hit} wall={ev['wall_s']}s")
    if violations:
        return 1
    if errors:
        print(f"HARNESS-ERROR property={prop}")
        for e in errors[:5]:
            print(e[-3000:])
        return 2
    if args.replay:
        print("replay passed")
        return 0
    if nontrivial < 2 or evaluations < 1:
        print(f"HARNESS-ERROR property={prop} vacuous run: distinct_nontrivial={nontrivial}")
        return 2
    return 0


if __name__ == "__main__":
    sys.exit(main())
