"""G-SPEC: the small-spec family.  A spec *descriptor* is plain JSON; build_spec(desc)
constructs an accelforge Spec from it with the Python classes (no YAML, no Jinja).

Descriptor layout
-----------------
{
 "einsums": [{"name": "E0", "tensors": [["T0", ["m","n0"], false], ["W0", ["n0","n1"], false],
                                         ["T1", ["m","n1"], true]], "n_instances": 1}, ...],
 "bounds": {"m": 4, "n0": 3, "n1": 6},          # rank-variable bounds
 "bits": {"All": 8},                            # workload bits_per_value (set-expression keys)
 "n_instances": 1,
 "persistent": null | "set expression",
 "nodes": [                                     # flattened architecture, top-down
   {"type": "Memory", "name": "Main", "size": "inf", "keep": "~Intermediates", "may_keep": "All",
    "read": [energy, throughput], "write": [energy, throughput], "leak": 0,
    "bits_per_value": {...}?, "bits_per_action": n?, "spatial": [...]?, ...},
   {"type": "Toll", "name": "T", "direction": "up_and_down" | {...}, "keep": ..., "read": [e, tp]},
   {"type": "Container", "name": "PEs", "spatial": [{"name": "X", "fanout": 4, "loop_bounds":
        [{"expression": "All"|"m", "operator": "<=", "value": 2}], "min_usage": 0.5}]},
   {"type": "Compute", "name": "MAC", "compute": [energy, throughput], "leak": 0},
 ],
 "mapper": {"metrics": "ENERGY" | "LATENCY" | "ENERGY|LATENCY" | ..., "max_fused_loops": 1, ...}
}
Numbers may be written "inf".
"""

from __future__ import annotations

import copy
import math

from hypothesis import strategies as st

INF = float("inf")


def num(x):
    if isinstance(x, str):
        return INF if x == "inf" else float(x)
    return x


def enc(x):
    return "inf" if isinstance(x, float) and math.isinf(x) else x


# ---------------------------------------------------------------------------
# building
# ---------------------------------------------------------------------------

def build_workload(desc):
    from accelforge.frontend.workload import Workload

    einsums = []
    for e in desc["einsums"]:
        d = {
            "name": e["name"],
            "tensor_accesses": [
                {"name": t, "projection": list(proj), "output": bool(out)} for t, proj, out in e["tensors"]
            ],
        }
        if e.get("n_instances", 1) != 1:
            d["n_instances"] = e["n_instances"]
        if e.get("is_copy_operation"):
            d["is_copy_operation"] = True
        einsums.append(d)
    kw = dict(
        einsums=einsums,
        iteration_space_shape={rv: f"0 <= {rv} < {b}" for rv, b in desc["bounds"].items()},
        bits_per_value=dict(desc.get("bits", {"All": 8})),
    )
    if desc.get("n_instances", 1) != 1:
        kw["n_instances"] = desc["n_instances"]
    if desc.get("persistent"):
        kw["persistent_tensors"] = desc["persistent"]
    return Workload(**kw)


def _spatial(sp_list):
    out = []
    for s in sp_list or []:
        d = {"name": s["name"], "fanout": s["fanout"]}
        for k in ("may_reuse", "reuse", "min_usage", "usage_scale", "power_gateable"):
            if k in s:
                d[k] = s[k]
        if s.get("loop_bounds"):
            d["loop_bounds"] = [dict(lb) for lb in s["loop_bounds"]]
        out.append(d)
    return out


def _action(name, ev, extra=None):
    d = {"name": name, "energy": num(ev[0]), "throughput": num(ev[1])}
    if extra:
        d.update(extra)
    return d


def build_arch(desc):
    from accelforge.frontend import arch as A

    nodes = []
    for n in desc["nodes"]:
        t = n["type"]
        common = {"name": n["name"]}
        if n.get("spatial"):
            common["spatial"] = _spatial(n["spatial"])
        if t == "Container":
            nodes.append(A.Container(**common))
            continue
        common["leak_power"] = num(n.get("leak", 0))
        common["area"] = num(n.get("area", 0))
        for k in ("energy_scale", "area_scale", "leak_power_scale", "n_parallel_instances", "total_latency", "actions_scale"):
            if k in n:
                common[k] = n[k]
        if t == "Compute":
            acts = [_action("compute", n.get("compute", [1, 1]), n.get("compute_extra"))]
            kw = dict(common, actions=acts)
            if "skip_initial_output_write" in n:
                kw["skip_initial_output_write"] = n["skip_initial_output_write"]
            nodes.append(A.Compute(**kw))
            continue
        tens = {}
        for k in ("keep", "may_keep", "back", "no_refetch_from_above", "no_resend_to_below",
                  "force_memory_hierarchy_order"):
            if k in n:
                tens[k] = n[k]
        kw = dict(common, tensors=tens)
        for k in ("bits_per_value", "bits_per_action", "values_per_action", "skip_initial_output_write"):
            if k in n:
                kw[k] = copy.deepcopy(n[k])
        if t == "Memory":
            kw["size"] = num(n["size"])
            kw["actions"] = [
                _action("read", n.get("read", [1, "inf"]), n.get("read_extra")),
                _action("write", n.get("write", [1, "inf"]), n.get("write_extra")),
            ]
            nodes.append(A.Memory(**kw))
        elif t == "Toll":
            kw["direction"] = copy.deepcopy(n.get("direction", "up_and_down"))
            kw["actions"] = [_action("read", n.get("read", [1, "inf"]), n.get("read_extra"))]
            nodes.append(A.Toll(**kw))
        else:
            raise ValueError(t)
    return A.Arch(nodes=nodes)


def parse_metrics(s: str):
    from accelforge import Metrics

    m = None
    for part in s.split("|"):
        v = getattr(Metrics, part.strip())
        m = v if m is None else (m | v)
    return m


def build_spec(desc, apply_mapper=True):
    from accelforge import Spec

    spec = Spec(arch=build_arch(desc), workload=build_workload(desc))
    if apply_mapper:
        for k, v in (desc.get("mapper") or {}).items():
            if k == "metrics":
                spec.mapper.metrics = parse_metrics(v)
            else:
                setattr(spec.mapper, k, num(v) if isinstance(v, str) else v)
    return spec


# ---------------------------------------------------------------------------
# workload shapes
# ---------------------------------------------------------------------------

def chain(k: int):
    """k matmuls T{i+1}[m,n{i+1}] = T{i}[m,n{i}] * W{i}[n{i},n{i+1}]"""
    es = []
    for i in range(k):
        es.append({"name": f"E{i}", "tensors": [[f"T{i}", ["m", f"n{i}"], False],
                                                [f"W{i}", [f"n{i}", f"n{i+1}"], False],
                                                [f"T{i+1}", ["m", f"n{i+1}"], True]]})
    rvs = ["m"] + [f"n{i}" for i in range(k + 1)]
    return es, rvs


def matvec():
    return ([{"name": "E0", "tensors": [["A", ["m", "k"], False], ["x", ["k"], False], ["y", ["m"], True]]}],
            ["m", "k"])


def elementwise(k: int = 1):
    """chain of k elementwise ops over [m,n]"""
    es = []
    for i in range(k):
        es.append({"name": f"E{i}", "tensors": [[f"T{i}", ["m", "n"], False], [f"B{i}", ["m", "n"], False],
                                                [f"T{i+1}", ["m", "n"], True]]})
    return es, ["m", "n"]


def diamond():
    """two independent producers feeding one consumer (two valid Einsum orders)"""
    es = [
        {"name": "P0", "tensors": [["A0", ["m", "k0"], False], ["W0", ["k0", "n"], False], ["U", ["m", "n"], True]]},
        {"name": "P1", "tensors": [["A1", ["m", "k1"], False], ["W1", ["k1", "n"], False], ["V", ["m", "n"], True]]},
        {"name": "C", "tensors": [["U", ["m", "n"], False], ["V", ["m", "n"], False], ["Z", ["m", "n"], True]]},
    ]
    return es, ["m", "n", "k0", "k1"]


def skip3():
    """three Einsums with a skip connection: T1 feeds both E1 and E2"""
    es = [
        {"name": "E0", "tensors": [["T0", ["m", "n0"], False], ["W0", ["n0", "n1"], False], ["T1", ["m", "n1"], True]]},
        {"name": "E1", "tensors": [["T1", ["m", "n1"], False], ["W1", ["n1", "n2"], False], ["T2", ["m", "n2"], True]]},
        {"name": "E2", "tensors": [["T1", ["m", "n1"], False], ["T2", ["m", "n2"], False], ["T3", ["m", "n2"], True]]},
    ]
    return es, ["m", "n0", "n1", "n2"]


def sharedw2():
    """two matmuls reading the SAME weight: T1[m,n1] = T0[m,n0] * W[n0,n1]; T2[m,n0] = T1[m,n1] * W[n0,n1]"""
    return ([{"name": "E0", "tensors": [["T0", ["m", "n0"], False], ["W", ["n0", "n1"], False], ["T1", ["m", "n1"], True]]},
             {"name": "E1", "tensors": [["T1", ["m", "n1"], False], ["W", ["n0", "n1"], False], ["T2", ["m", "n0"], True]]}],
            ["m", "n0", "n1"])


def matmul_ab():
    return ([{"name": "Z", "tensors": [["A", ["m", "k"], False], ["B", ["k", "n"], False], ["Z", ["m", "n"], True]]}],
            ["m", "k", "n"])


BOUND_POOL = [1, 2, 3, 4, 4, 6, 6, 8, 9, 12]
SMALL_BOUND_POOL = [1, 2, 2, 3, 4, 4, 6]


@st.composite
def workloads(draw, shapes=("matmul", "chain2", "matvec", "elementwise"), bound_pool=None, max_ops=2000):
    shape = draw(st.sampled_from(list(shapes)))
    if shape == "matmul":
        es, rvs = matmul_ab()
    elif shape == "chain1":
        es, rvs = chain(1)
    elif shape == "chain2":
        es, rvs = chain(2)
    elif shape == "chain3":
        es, rvs = chain(3)
    elif shape == "matvec":
        es, rvs = matvec()
    elif shape == "elementwise":
        es, rvs = elementwise(1)
    elif shape == "elementwise2":
        es, rvs = elementwise(2)
    elif shape == "diamond":
        es, rvs = diamond()
    elif shape == "skip3":
        es, rvs = skip3()
    else:
        raise ValueError(shape)
    pool = bound_pool or BOUND_POOL
    bounds = {rv: draw(st.sampled_from(pool)) for rv in rvs}
    # keep every Einsum's op count modest
    for _ in range(20):
        worst = max(math.prod(bounds[rv] for rv in {v for _, p, _ in e["tensors"] for v in p}) for e in es)
        if worst <= max_ops:
            break
        big = max(bounds, key=lambda r: bounds[r])
        bounds[big] = max(1, bounds[big] // 2)
    bits = draw(st.sampled_from([{"All": 8}, {"All": 8}, {"All": 16}, {"All": 1}, {"All": 2}]))
    return {"shape": shape, "einsums": es, "bounds": bounds, "bits": bits, "n_instances": 1}


def tensor_sizes(wl):
    """{tensor: n_elements} for dense single-variable projections"""
    out = {}
    for e in wl["einsums"]:
        for t, proj, _ in e["tensors"]:
            out[t] = math.prod(wl["bounds"][v] for v in proj)
    return out


ENERGY_POOL = [0, 0.5, 1, 1, 2, 3, 8, 100]
TP_POOL = ["inf", "inf", 0.5, 1, 2, 4]


@st.composite
def memory_hierarchies(draw, wl, levels=(2, 3), finite_tp=False, fusion=True, glb_bindable=True,
                       energy_pool=None, allow_leak=False, exact_sizes=False):
    """Main (+GLB (+Reg)) + MAC.  GLB size is drawn relative to the workload's tensor sizes so
    that capacity binds in a good fraction of cases."""
    ep = energy_pool or ENERGY_POOL
    tp_pool = [0.5, 1, 2, 4] if finite_tp else TP_POOL
    nlev = draw(st.sampled_from(list(levels)))
    bits = list(wl["bits"].values())[0]
    sizes = tensor_sizes(wl)
    tot = sum(sizes.values())
    big = max(sizes.values())
    nodes = []
    main_keep = draw(st.sampled_from(["~Intermediates", "~Intermediates", "All"])) if fusion else "All"
    nodes.append({"type": "Memory", "name": "Main", "size": "inf", "keep": main_keep, "may_keep": "All",
                  "read": [draw(st.sampled_from(ep)) + 1, draw(st.sampled_from(tp_pool))],
                  "write": [draw(st.sampled_from(ep)) + 1, draw(st.sampled_from(tp_pool))],
                  "leak": draw(st.sampled_from([0, 0, 1, 0.25])) if allow_leak else 0})
    names = ["GLB", "Reg"]
    for li in range(nlev - 1):
        if glb_bindable:
            cands = sorted({3, max(1, big // 2), big, big + 2, max(2, tot // 2), tot, tot * 2})
            vals = draw(st.sampled_from(cands + ["inf"]))
            if li == 1 and vals != "inf":
                vals = max(1, vals // 2)
        else:
            vals = "inf"
        # capacity = vals values plus half a value: binds just like an integral capacity but no tile
        # combination fills it exactly (exact fits hit a known float32 rounding finding, see
        # known_findings.json C08 exact-fit); pass exact_sizes=True to generate integral capacities
        size = "inf" if vals == "inf" else (vals * bits if exact_sizes else vals * bits + bits / 2)
        may_keep = draw(st.sampled_from(["All", "All", "Inputs", "Outputs", "~Inputs"]))
        keep = draw(st.sampled_from(["Nothing", "Nothing", "Nothing", "Outputs & " + may_keep])) if may_keep != "Inputs" else "Nothing"
        if li == 0 and main_keep != "All":
            # tensors Main does not hold must be held here (the documented idiom, examples/arches/simple.yaml)
            keep = "~Main" if keep == "Nothing" else f"~Main | ({keep})"
            may_keep = "All"
        nodes.append({"type": "Memory", "name": names[li], "size": size, "keep": keep, "may_keep": may_keep,
                      "read": [draw(st.sampled_from(ep)), draw(st.sampled_from(tp_pool))],
                      "write": [draw(st.sampled_from(ep)), draw(st.sampled_from(tp_pool))],
                      "leak": draw(st.sampled_from([0, 0, 1, 0.125])) if allow_leak else 0})
    nodes.append({"type": "Compute", "name": "MAC",
                  "compute": [draw(st.sampled_from(ep)), draw(st.sampled_from([1, 1, 2, 0.5]))],
                  "leak": draw(st.sampled_from([0, 0, 2])) if allow_leak else 0})
    return nodes


@st.composite
def specs(draw, shapes=("matmul", "chain2", "matvec", "elementwise"), levels=(2, 3),
          metrics=("ENERGY", "LATENCY", "ENERGY_DELAY_PRODUCT"), bound_pool=None, finite_tp=False,
          fusion=True, glb_bindable=True, allow_leak=False, max_ops=2000, mapper_extra=None, exact_sizes=False):
    wl = draw(workloads(shapes=shapes, bound_pool=bound_pool, max_ops=max_ops))
    nodes = draw(memory_hierarchies(wl, levels=levels, finite_tp=finite_tp, fusion=fusion,
                                    glb_bindable=glb_bindable, allow_leak=allow_leak, exact_sizes=exact_sizes))
    mapper = {"metrics": draw(st.sampled_from(list(metrics)))}
    if mapper_extra:
        mapper.update(draw(mapper_extra) if hasattr(mapper_extra, "map") else mapper_extra)
    d = dict(wl)
    d["nodes"] = nodes
    d["mapper"] = mapper
    return d


# ---------------------------------------------------------------------------
# running the mapper with side effects contained
# ---------------------------------------------------------------------------

class Infeasible(Exception):
    pass


def run_mapper(spec, **kw):
    """map_workload_to_arch with progress off; raises Infeasible when accelforge says the
    mapspace is empty (its documented way of reporting no valid mapping)."""
    import accelforge as af

    af.set_n_parallel_jobs(kw.pop("n_jobs", 1))
    try:
        if "eval_in_detail" in kw:
            # Spec.map_workload_to_arch does not forward eval_in_detail; the public function does
            from accelforge.mapper.FFM.main import map_workload_to_arch

            return map_workload_to_arch(spec, print_progress=False, **kw)
        return spec.map_workload_to_arch(print_progress=False, **kw)
    except Exception as e:  # noqa: BLE001
        msg = str(e)
        low = msg.lower()
        if "no pmappings" in low or "no mappings" in low or "no valid" in low:
            raise Infeasible(msg[:300])
        raise


def total_cols(mappings):
    df = mappings.data
    return {c.split("<SEP>", 1)[1]: [float(x) for x in df[c]] for c in df.columns
            if c.startswith("Total<SEP>") and c.split("<SEP>")[1] in ("energy", "latency", "energy_delay_product")}


# ---------------------------------------------------------------------------
# additive helpers (C28 / C04 / C03)
# ---------------------------------------------------------------------------

def rename(desc, names):
    """Return a copy of a descriptor with einsum / tensor / component names replaced according to
    ``names`` ({old: new}); set expressions (keep, may_keep, bits keys, persistent, per-tensor dict
    keys) are rewritten on word boundaries.  Rank variables are left alone."""
    import re

    if not names:
        return copy.deepcopy(desc)
    pat = re.compile(r"\b(" + "|".join(re.escape(k) for k in sorted(names, key=len, reverse=True)) + r")\b")

    def rs(s):
        return pat.sub(lambda m: names[m.group(1)], s) if isinstance(s, str) else s

    d = copy.deepcopy(desc)
    for e in d["einsums"]:
        e["name"] = names.get(e["name"], e["name"])
        for t in e["tensors"]:
            t[0] = names.get(t[0], t[0])
    d["bits"] = {rs(k): v for k, v in d.get("bits", {"All": 8}).items()}
    if d.get("persistent"):
        d["persistent"] = rs(d["persistent"])
    for n in d["nodes"]:
        n["name"] = names.get(n["name"], n["name"])
        for k in ("keep", "may_keep", "back", "no_refetch_from_above", "no_resend_to_below"):
            if k in n:
                n[k] = rs(n[k])
        for k in ("bits_per_value", "values_per_action", "direction"):
            if isinstance(n.get(k), dict):
                n[k] = {rs(kk): v for kk, v in n[k].items()}
    return d


def einsum_tensors(desc):
    """{einsum: [tensor names]} and the classification of tensors of a workload descriptor"""
    outs = {t for e in desc["einsums"] for t, _, o in e["tensors"] if o}
    ins = {t for e in desc["einsums"] for t, _, o in e["tensors"] if not o}
    return {e["name"]: [t for t, _, _ in e["tensors"]] for e in desc["einsums"]}, outs & ins, ins - outs, outs - ins


def run_mapper2(spec, **kw):
    """run_mapper, additionally classifying accelforge's "Einsum X has no pmappings ... no pmappings satisfied
    constraints" ValueError as Infeasible (the documented report that constraints leave an Einsum without pmappings)."""
    try:
        return run_mapper(spec, **kw)
    except Infeasible:
        raise
    except ValueError as e:
        if "has no pmappings" in str(e):
            raise Infeasible(str(e)[:300])
        raise
