"""Shared generator: small workload descriptors (see vf/ref/setalg.py for the format) and
the builder that turns one into accelforge objects.

Construct, don't filter: every descriptor produced here is a legal cascade of Einsums
per docs/source/guide/spec/workload.rst --
  * Einsum names unique, never "Total";
  * a tensor has one rank-variable list everywhere (consistent ranks), written in the
    documented list-projection form ``[m, k]``;
  * a tensor is produced by at most one Einsum, never read and written by the same Einsum;
  * ``persistent`` is a per-tensor flag (consistent across Einsums, as the code requires);
  * every Einsum's output tensor contains the rank variable ``m`` (so a rank-variable
    rename that mentions ``m`` is defined in every Einsum).
"""

from __future__ import annotations

from hypothesis import strategies as st

RV_POOL = ["m", "n", "k", "j", "p", "q"]


@st.composite
def workloads(draw, min_einsums=1, max_einsums=4, persistent_flags=True):
    n = draw(st.integers(min_einsums, max_einsums))
    tensors: dict = {}
    einsums = []
    produced: list[str] = []
    externals: list[str] = []

    def new_tensor(force_m=False):
        name = f"T{len(tensors)}"
        rv = draw(st.lists(st.sampled_from(RV_POOL), min_size=1, max_size=3, unique=True))
        if force_m and "m" not in rv:
            rv = ["m"] + rv
        tensors[name] = {"rv": rv, "persistent": bool(persistent_flags and draw(st.integers(0, 3)) == 0)}
        return name

    for i in range(n):
        n_in = draw(st.integers(1, 3))
        inputs: list[str] = []
        for _ in range(n_in):
            kind = draw(st.sampled_from(["new", "produced", "produced", "external"]))
            cand = None
            if kind == "produced":
                pool = [t for t in produced if t not in inputs]
                if pool:
                    cand = draw(st.sampled_from(pool))
            elif kind == "external":
                pool = [t for t in externals if t not in inputs]
                if pool:
                    cand = draw(st.sampled_from(pool))
            if cand is None:
                cand = new_tensor()
                externals.append(cand)
            inputs.append(cand)
        out = new_tensor(force_m=True)
        produced.append(out)
        einsums.append({"name": f"E{i}", "inputs": inputs, "output": out})
    return {"tensors": tensors, "einsums": einsums}


def einsum_dicts(wl: dict, local_renames: dict | None = None) -> list[dict]:
    """Verbose Einsum entries (documented form). ``local_renames``: einsum name -> the
    value of the Einsum's ``renames`` attribute (dict or list form), passed through."""
    out = []
    for e in wl["einsums"]:
        tas = []
        for t in e["inputs"]:
            ta = {"name": t, "projection": list(wl["tensors"][t]["rv"])}
            if wl["tensors"][t].get("persistent"):
                ta["persistent"] = True
            tas.append(ta)
        t = e["output"]
        ta = {"name": t, "projection": list(wl["tensors"][t]["rv"]), "output": True}
        if wl["tensors"][t].get("persistent"):
            ta["persistent"] = True
        tas.append(ta)
        d = {"name": e["name"], "tensor_accesses": tas}
        if local_renames and e["name"] in local_renames:
            d["renames"] = local_renames[e["name"]]
        out.append(d)
    return out
