"""Job functions for C32 (the parallel runner). They live in a module that imports nothing
heavy so that loky worker processes can unpickle them by reference quickly."""

import time


def echo(index, payload, sleep_ms=0):
    if sleep_ms:
        time.sleep(sleep_ms / 1000.0)
    return (index, payload, time.time())


def twice(index, payload, sleep_ms=0):
    """a second, distinguishable function: a result routed to the wrong job is visible even when two
    jobs carry the same payload"""
    if sleep_ms:
        time.sleep(sleep_ms / 1000.0)
    return (index, [payload, payload], time.time())


FUNCS = {"echo": echo, "twice": twice}


def expected(fn, index, payload):
    return (index, payload) if fn == "echo" else (index, [payload, payload])
