"""Helpers shared by the mapper-level metamorphic checks C16-C19.

Everything here works on G-SPEC descriptors (vf/gen/spec.py).  A *run* is one call of
map_workload_to_arch on a descriptor; `run()` returns a plain-Python summary so the
oracles never touch pandas.
"""

from __future__ import annotations

import copy
import math

from hypothesis import strategies as st

from vf.core import Violation
from vf.gen import spec as G

SEP = "<SEP>"


# ---------------------------------------------------------------------------
# running
# ---------------------------------------------------------------------------

class Run:
    """Summary of one mapper run.  feasible=False <=> accelforge reported an empty mapspace."""

    def __init__(self, feasible, rows=None, usage=None, mappings=None, why=""):
        self.feasible = feasible
        self.rows = rows or []          # list of {"energy":..,"latency":..,"edp":..} (keys present iff column present)
        self.usage = usage or []        # per row {resource: fraction}
        self.mappings = mappings        # accelforge Mappings (for canon())
        self.why = why

    def col(self, name):
        return [r[name] for r in self.rows if name in r]

    def best(self, name):
        v = self.col(name)
        return min(v) if v else None

    def argbest(self, name):
        v = [(r[name], i) for i, r in enumerate(self.rows) if name in r]
        return min(v)[1] if v else None

    def canon(self, i):
        return canon(self.mappings.mapping(i))


def _desc_with(desc, metrics=None, mapper=None):
    d = dict(desc)
    m = dict(desc.get("mapper") or {})
    if mapper:
        m.update(mapper)
    if metrics is not None:
        m["metrics"] = metrics
    d["mapper"] = m
    return d


def run(desc, metrics=None, mapper=None, eval_in_detail=True, what="map_workload_to_arch") -> Run:
    """Run the mapper on a descriptor.  Infeasible -> Run(feasible=False); any other exception is
    a Violation (the properties quantify over specs the documentation allows, so the mapper must
    either answer or say the mapspace is empty)."""
    import accelforge as af
    from accelforge.mapper.FFM.main import map_workload_to_arch

    d = _desc_with(desc, metrics, mapper)
    spec = G.build_spec(d)
    af.set_n_parallel_jobs(1)
    try:
        m = map_workload_to_arch(spec, print_progress=False, eval_in_detail=eval_in_detail)
    except Exception as e:  # noqa: BLE001
        msg = str(e)
        low = msg.lower()
        # accelforge's ways of saying the mapspace is empty ("No pmappings ...", "Einsum E0 has no pmappings.
        # This likely means that no pmappings satisfied constraints", "... has no valid reservations")
        if "no pmappings" in low or "no mappings" in low or "no valid" in low:
            return Run(False, why=msg[:200])
        raise Violation(f"{what} [{d['mapper']}] raised {type(e).__name__}: {msg[:600]}",
                        key=f"mapper-crash:{type(e).__name__}")
    df = m.data
    names = {"energy": "Total" + SEP + "energy", "latency": "Total" + SEP + "latency",
             "edp": "Total" + SEP + "energy_delay_product"}
    rows = []
    for i in range(len(df)):
        r = {}
        for k, c in names.items():
            if c in df.columns:
                r[k] = float(df[c].iloc[i])
        rows.append(r)
    usage = []
    res_cols = [c for c in df.columns if c.startswith("reservation" + SEP)]
    for i in range(len(df)):
        u = {}
        for c in res_cols:
            name = c.split(SEP)[1]
            u[name] = max(u.get(name, 0.0), float(df[c].iloc[i]))
        usage.append(u)
    return Run(True, rows, usage, m)


def canon(mapping) -> str:
    """Structural string of a Mapping: node compact_str()s in pre-order with nesting."""
    out = []

    def walk(n, depth):
        kids = getattr(n, "nodes", None)
        if kids:
            out.append(f"{depth}:{type(n).__name__}(")
            for ch in kids:
                walk(ch, depth + 1)
            out.append(")")
        else:
            out.append(n.compact_str() if hasattr(n, "compact_str") else type(n).__name__)

    walk(mapping, 0)
    return " ".join(out)


def rel_err(a, b):
    if a == b:
        return 0.0
    if any(math.isinf(x) or math.isnan(x) for x in (a, b)):
        return math.inf
    return abs(a - b) / max(abs(a), abs(b))


def same(a, b, rel=1e-5):
    return rel_err(a, b) <= rel


# ---------------------------------------------------------------------------
# descriptor transformations
# ---------------------------------------------------------------------------

def scale_energy(desc, k):
    """every per-action energy and every leak power multiplied by k"""
    d = copy.deepcopy(desc)
    for n in d["nodes"]:
        for a in ("read", "write", "compute"):
            if a in n:
                n[a] = [G.num(n[a][0]) * k, n[a][1]]
        if "leak" in n:
            n["leak"] = G.num(n["leak"]) * k
    return d


def scale_throughput(desc, k):
    """every action throughput multiplied by k (inf stays inf)"""
    d = copy.deepcopy(desc)
    for n in d["nodes"]:
        for a in ("read", "write", "compute"):
            if a in n:
                tp = G.num(n[a][1])
                n[a] = [n[a][0], G.enc(tp * k)]
    return d


def scale_instances(desc, j, which):
    """which: 'workload' | 'all_einsums' | index of one Einsum"""
    d = copy.deepcopy(desc)
    if which == "workload":
        d["n_instances"] = d.get("n_instances", 1) * j
    elif which == "all_einsums":
        for e in d["einsums"]:
            e["n_instances"] = e.get("n_instances", 1) * j
    else:
        e = d["einsums"][int(which)]
        e["n_instances"] = e.get("n_instances", 1) * j
    return d


# ---------------------------------------------------------------------------
# generators
# ---------------------------------------------------------------------------

E_CHEAP = [0.5, 1, 1, 2]
E_DEAR = [8, 9, 20, 100]


@st.composite
def tradeoff_nodes(draw, wl, levels=(2,), allow_leak=True, finite_tp=True, cap_bind=True, dear_main=None):
    """Main + GLB (+Reg) + MAC with finite throughputs, from G.memory_hierarchies, optionally with a cost
    pattern laid over it.  dear_main: None = half plain, half 'dear_main'; True = 'dear_main';
    'dear_main'  fast dear Main over slow cheap buffers (energy and latency pull apart);
    'glb_good'   slow dear Main over fast cheap buffers and a fast MAC (buffer capacity matters for every metric);
    'compute_bound' fast memories over a slow MAC (parallelism matters)."""
    nodes = draw(G.memory_hierarchies(wl, levels=levels, finite_tp=finite_tp, allow_leak=allow_leak,
                                      glb_bindable=cap_bind))
    pattern = dear_main
    if pattern is None:
        pattern = "dear_main" if draw(st.booleans()) else False
    if pattern is True:
        pattern = "dear_main"
    if not pattern:
        return nodes
    P = {"dear_main": ([2, 4, 8], [0.25, 0.5, 1], [1, 2, 4]),
         "glb_good": ([0.25, 0.5, 1], [2, 4, 8], [4, 8]),
         "compute_bound": ([4, 8, 16], [4, 8, 16], [0.5, 1])}[pattern]
    for n in nodes:
        if n["name"] == "Main":
            n["read"] = [draw(st.sampled_from(E_DEAR)), draw(st.sampled_from(P[0]))]
            n["write"] = [draw(st.sampled_from(E_DEAR)), draw(st.sampled_from(P[0]))]
        elif n["type"] == "Memory":
            n["read"] = [draw(st.sampled_from(E_CHEAP)), draw(st.sampled_from(P[1]))]
            n["write"] = [draw(st.sampled_from(E_CHEAP)), draw(st.sampled_from(P[1]))]
        elif n["type"] == "Compute":
            n["compute"] = [draw(st.sampled_from([0, 1, 2])), draw(st.sampled_from(P[2]))]
    return nodes


@st.composite
def small_specs(draw, shapes=("matmul", "chain2", "matvec", "elementwise2"), bound_pool=None,
                allow_leak=True, finite_tp=True, cap_bind=True, three_level_single=True, max_ops=400, tight=False,
                dear_main=None):
    """1-2 Einsum specs that the mapper finishes in about a second: two memory levels, or three
    for a single Einsum.  tight=True: every memory below Main is finite and smaller than the tensors
    together; tight="very": a handful of values (capacity decides the optimum).  dear_main: cost pattern, see
    tradeoff_nodes."""
    wl = draw(G.workloads(shapes=shapes, bound_pool=bound_pool or G.SMALL_BOUND_POOL, max_ops=max_ops))
    if list(wl["bits"].values())[0] == 1:
        # G's finite sizes are 'n values + half a value' to stay clear of the known exact-fit float32
        # finding (known_findings.json, C08); with 1-bit values the half value is a whole one
        wl["bits"] = {"All": 4}
    single = len(wl["einsums"]) == 1
    levels = (2, 2, 3) if (single and three_level_single) else (2,)
    nodes = draw(tradeoff_nodes(wl, levels=levels, allow_leak=allow_leak, finite_tp=finite_tp, cap_bind=cap_bind,
                                dear_main=dear_main))
    if tight:
        bits = list(wl["bits"].values())[0]
        sizes = G.tensor_sizes(wl)
        tot, big = sum(sizes.values()), max(sizes.values())
        for n in nodes:
            if n["type"] == "Memory" and n["name"] != "Main":
                cands = {2, 3, 4, max(2, big // 4), max(2, big // 2)} if tight == "very" else \
                    {max(2, big // 4), max(2, big // 2), big, max(3, tot // 3), max(3, tot // 2)}
                vals = draw(st.sampled_from(sorted(cands)))
                if n["name"] == "Reg":
                    vals = max(1, vals // 2) if tight == "very" else max(2, vals // 3)
                n["size"] = vals * bits + max(1, bits // 2)      # never an exact fit (see above)
    d = dict(wl)
    d["nodes"] = nodes
    d["mapper"] = {}
    return d


def drive_unbiased(strategy, check, *, n, seed, col):
    """drive() without shrinking (a shrink step costs several mapper runs), stopping at the first failure.
    drive() itself skips Hypothesis' all-minimal first example; the example after it still avoids the minimal
    value at its first choice point (measured: the first element of the first sampled_from came up 0 times
    in 35), so a dummy leading draw absorbs that bias."""
    from vf.core import drive

    unbiased = st.tuples(st.integers(0, 2 ** 16), strategy).map(lambda t: t[1])
    # max_failures=1: a failing shard stops at its first failure instead of re-running all its (expensive)
    # cases to look for further keys; the other shards keep searching independently
    drive(unbiased, check, n=n, seed=seed, col=col, shrink=False, max_failures=1)


NSHARDS = {"quick": 8, "thorough": 16}   # import + numba JIT cost ~15 s per worker: few, fatter shards


def deal(slots, tier, seed):
    """round-robin the case slots (JSON-able dicts) over the tier's shards"""
    n = NSHARDS[tier]
    return [{"k": k, "seed": seed, "slots": [dict(s, i=i) for i, s in enumerate(slots) if i % n == k]} for k in range(n)]


def run_slots(shard, col, prop, make_strategy, check):
    """one Hypothesis-drawn case per slot; stop the shard at its first failure"""
    from vf.core import hash32

    for slot in shard["slots"]:
        if col.failures or col.over_budget():
            break
        drive_unbiased(make_strategy(slot), check, n=1, seed=hash32(shard["seed"], prop, slot["i"]), col=col)


def shape_labels(desc):
    return [f"shape:{desc.get('shape', '?')}", f"einsums:{len(desc['einsums'])}",
            f"levels:{sum(1 for n in desc['nodes'] if n['type'] == 'Memory')}",
            "leak" if any(G.num(n.get("leak", 0)) for n in desc["nodes"]) else "noleak",
            "glb:finite" if any(n["name"] == "GLB" and n["size"] != "inf" for n in desc["nodes"]) else "glb:inf"]
