"""Tiny single-Einsum specs with explicit keep/may_keep sets + evaluation of their whole RefSpace
universe with accelforge's own evaluate_mapping (shared by C01, C02, C16)."""

from __future__ import annotations

import math

from hypothesis import strategies as st

from vf.gen import mapping as GM
from vf.gen import spec as G
from vf.ref import mapspace as MS

SHAPES = {
    "matmul": ([["A", ["m", "k"], False], ["B", ["k", "n"], False], ["Z", ["m", "n"], True]], ["m", "k", "n"]),
    "matvec": ([["A", ["m", "k"], False], ["x", ["k"], False], ["y", ["m"], True]], ["m", "k"]),
    "elementwise": ([["A", ["m", "n"], False], ["B", ["m", "n"], False], ["Z", ["m", "n"], True]], ["m", "n"]),
    "outer": ([["a", ["m"], False], ["b", ["n"], False], ["Z", ["m", "n"], True]], ["m", "n"]),
}


def setexpr(names):
    return " | ".join(names) if names else "Nothing"


@st.composite
def tiny_specs(draw, metrics=("ENERGY", "LATENCY", "ENERGY_DELAY_PRODUCT"), max_universe=2500, three_level=True,
               conflict=False):
    shape = draw(st.sampled_from(["matmul", "matmul", "matvec", "elementwise", "outer"]))
    tens, rvs = SHAPES[shape]
    tensors = [t for t, _, _ in tens]
    nlev = draw(st.sampled_from([2, 2, 2, 3])) if three_level else 2
    bounds = {rv: draw(st.sampled_from([2, 3, 4, 4, 6, 6, 8, 9, 12])) for rv in rvs}
    levels = []
    for name in ["GLB", "Reg"][: nlev - 1]:
        may = [t for t in tensors if draw(st.integers(0, 4)) > 0] or list(tensors)
        if nlev == 3 and len(may) > 2:
            may = may[: 2] if name == "Reg" else may
        must = [t for t in may if draw(st.integers(0, 5)) == 0]
        levels.append((name, must, may))
    # shrink bounds until the universe is small enough to enumerate
    for _ in range(40):
        if MS.count_members(rvs, bounds, levels) <= max_universe:
            break
        big = max(bounds, key=lambda r: (bounds[r], r))
        smaller = [b for b in [1, 2, 3, 4, 6, 8, 9] if b < bounds[big]]
        bounds[big] = smaller[-1] if smaller else 1
        if all(b == 1 for b in bounds.values()):
            lv = levels[-1]
            levels[-1] = (lv[0], lv[1][:1], (lv[1][:1] + [t for t in lv[2] if t not in lv[1]])[:1])
    bits = draw(st.sampled_from([8, 8, 16]))
    sizes = {t: math.prod(bounds[v] for v in p) for t, p, _ in tens}
    tot = sum(sizes.values())
    big = max(sizes.values())
    ep = [0.5, 1, 1, 2, 3, 8]
    tp = [0.5, 1, 2, 4, "inf"]
    nodes = [{"type": "Memory", "name": "Main", "size": "inf", "keep": "All", "may_keep": "All",
              "read": [draw(st.sampled_from(ep)) + 4, draw(st.sampled_from(tp))],
              "write": [draw(st.sampled_from(ep)) + 4, draw(st.sampled_from(tp))], "leak": 0}]
    for li, (name, must, may) in enumerate(levels):
        cands = sorted({2, max(1, big // 2), big, big + 1, max(2, tot // 2), tot})
        cands = [c for c in cands if c >= len(must) + 1] or [len(must) + 1]    # room for one value of every kept tensor
        vals = draw(st.sampled_from(cands + ["inf"]))
        if li == 1 and vals != "inf":
            vals = max(1, vals // 2)
        size = "inf" if vals == "inf" else vals * bits + bits / 2
        nodes.append({"type": "Memory", "name": name, "size": size, "keep": setexpr(must), "may_keep": setexpr(may),
                      "read": [draw(st.sampled_from(ep)), draw(st.sampled_from(tp))],
                      "write": [draw(st.sampled_from(ep)), draw(st.sampled_from(tp))],
                      "leak": draw(st.sampled_from([0, 0, 0.25]))})
    nodes.append({"type": "Compute", "name": "MAC", "compute": [draw(st.sampled_from(ep)), draw(st.sampled_from([1, 2, 0.5]))],
                  "leak": 0})
    if conflict and draw(st.integers(0, 3)) > 0:
        # make energy and latency pull in opposite directions: the outer memory is expensive but fast,
        # the inner memories are cheap but slow, and compute is never the bottleneck
        nodes[0]["read"] = [draw(st.sampled_from([8, 12, 16])), "inf"]
        nodes[0]["write"] = [draw(st.sampled_from([8, 12, 16])), "inf"]
        for n in nodes[1:-1]:
            n["read"] = [draw(st.sampled_from([0.5, 1])), draw(st.sampled_from([0.25, 0.5, 1]))]
            n["write"] = [draw(st.sampled_from([0.5, 1])), draw(st.sampled_from([0.25, 0.5, 1]))]
        nodes[-1]["compute"] = [1, draw(st.sampled_from([4, 8]))]
    return {"shape": shape, "einsums": [{"name": "E", "tensors": [list(t) for t in tens]}], "bounds": bounds,
            "bits": {"All": bits}, "nodes": nodes, "mapper": {"metrics": draw(st.sampled_from(list(metrics)))},
            "levels": [[n, list(a), list(b)] for n, a, b in levels]}


def evaluate_universe(desc, limit=None, col=None):
    """-> list of dicts {tree, energy, latency, usage{mem: frac}} for every VALID member, n_total, n_invalid"""
    import accelforge as af
    from accelforge.model.main import InvalidMappingError, evaluate_mapping

    af.set_n_parallel_jobs(1)
    tens = desc["einsums"][0]["tensors"]
    tensors = [t for t, _, _ in tens]
    rvs = list(desc["bounds"].keys())
    levels = [(n, a, b) for n, a, b in desc["levels"]]
    spec = G.build_spec(desc, apply_mapper=False)
    out, n_total, n_invalid = [], 0, 0
    for tree in MS.members("E", tensors, rvs, desc["bounds"], "Main", levels, "MAC", limit=limit):
        n_total += 1
        if col is not None and col.over_budget():
            break
        spec.mapping = GM.to_af_mapping(tree)
        try:
            r = evaluate_mapping(spec)
        except InvalidMappingError:
            n_invalid += 1
            continue
        row = r.data.iloc[0]
        out.append({"tree": tree, "energy": float(row["Total<SEP>energy"]), "latency": float(row["Total<SEP>latency"]),
                    "usage": {k: float(v) for k, v in r.resource_usage().items()}})
    return out, n_total, n_invalid


def objective(m, metric):
    if metric == "ENERGY":
        return m["energy"]
    if metric == "LATENCY":
        return m["latency"]
    if metric == "ENERGY_DELAY_PRODUCT":
        return m["energy"] * m["latency"]
    raise ValueError(metric)


def show(tree):
    out = []
    for n in tree:
        if n["k"] == "loop":
            out.append(f"for {n['rv']} tile {n['tile']}")
        elif n["k"] == "storage":
            out.append(f"{n['level']}[{','.join(n['tensors'])}]")
        else:
            out.append("compute")
    return " ".join(out)
