"""Shared generator of architecture-tree descriptors (C25, C26, C27) and the builder that turns a
descriptor into accelforge objects.  The descriptor format is documented in vf/ref/archtree.py.

Component leaves (Memory, Toll, Compute) may carry cost fields::

    "area", "leak": numbers
    "area_scale", "leak_power_scale", "energy_scale", "throughput_scale", "n_parallel_instances"
    "actions": {"read": {"energy": e, "throughput": t, "energy_scale": s, "throughput_scale": s}, ...}

Only inputs the documentation allows are produced: unique leaf names, every Fork holds a Compute,
the top-level chain starts with a Memory and holds a Compute, explicit numbers for every cost (so
hwcomponents is never consulted), a ``direction`` on every Toll.
"""

from hypothesis import strategies as st

FAN = [1, 2, 2, 3, 3, 4]
NUM = [0.5, 1, 1.5, 2, 3, 4, 8, 10]          # exactly representable, products stay exact
SCALE = [1, 1, 2, 0.5, 3, 0.25, 1.5, 4]
NPAR = [1, 1, 2, 3, 4]
ACTIONS = {"Memory": ["read", "write"], "Toll": ["read"], "Compute": ["compute"]}
PREFIX = {"Memory": "M", "Toll": "S", "Container": "K", "Compute": "c"}


@st.composite
def trees(draw, costs="none", trailing=True, max_depth=4, max_computes=5, fanouts=True):
    """costs: "none" (area 1 / leak 1 everywhere), "plain" (random area/leak, all scales 1) or
    "scaled" (random values, random scales and n_parallel_instances)."""
    state = {"n": 0, "computes": 1}   # computes incl. reservations; the top chain's own compute is reserved

    def leaf(t, reserved=False):
        state["n"] += 1
        node = {"t": t, "name": f"{PREFIX[t]}{state['n']}", "fan": []}
        if fanouts:
            if t == "Container":
                node["fan"] = draw(st.lists(st.sampled_from(FAN[1:]), min_size=1, max_size=2))
            elif draw(st.integers(0, 9)) < 5:
                node["fan"] = draw(st.lists(st.sampled_from(FAN), min_size=1, max_size=2))
        if t == "Compute" and not reserved:
            state["computes"] += 1
        if t != "Container" and costs != "none":
            node["area"] = draw(st.sampled_from(NUM))
            node["leak"] = draw(st.sampled_from(NUM))
            node["actions"] = {a: {"energy": draw(st.sampled_from(NUM)), "throughput": draw(st.sampled_from(NUM))}
                               for a in ACTIONS[t]}
            if costs == "scaled":
                for k in ("area_scale", "leak_power_scale", "energy_scale", "throughput_scale"):
                    node[k] = draw(st.sampled_from(SCALE))
                node["n_parallel_instances"] = draw(st.sampled_from(NPAR))
                for a in node["actions"].values():
                    a["energy_scale"] = draw(st.sampled_from(SCALE))
                    a["throughput_scale"] = draw(st.sampled_from(SCALE))
        return node

    def chain(depth, kind):
        """kind: "top" | "Fork" | "Hier" """
        items = []
        if kind == "top":
            items.append(leaf("Memory"))
        n = draw(st.integers(*{"top": (1, 5), "Fork": (0, 4), "Hier": (1, 4)}[kind]))
        for _ in range(n):
            t = draw(st.sampled_from(["Memory"] * 4 + ["Toll"] + ["Container"] * 2 + ["Compute"] * 2
                                     + ["Fork"] * 3 + ["Hier"] * 2))
            if t in ("Fork", "Hier") and depth >= max_depth:
                t = "Memory"
            if t == "Fork" and state["computes"] >= max_computes:
                t = "Toll"
            if t == "Compute" and state["computes"] >= max_computes:
                t = "Container"
            if t == "Fork":
                state["computes"] += 1    # reserve the Fork's own compute
            if t in ("Fork", "Hier"):
                items.append({"t": t, "nodes": chain(depth + 1, t)})
            else:
                items.append(leaf(t))
        if kind in ("top", "Fork"):
            # the chain's own compute; sometimes something legal but useless follows it
            if not (items and items[-1]["t"] == "Compute"):
                items.append(leaf("Compute", reserved=True))
            if trailing and draw(st.integers(0, 4)) == 0:
                items.append(leaf(draw(st.sampled_from(["Memory", "Toll", "Container"]))))
        return items

    return {"nodes": chain(1, "top")}


def build_arch(tree):
    """descriptor -> accelforge.frontend.arch.Arch (built with the Python classes)"""
    from accelforge.frontend import arch as A

    def spatial(n):
        return [{"name": f"{n['name']}_d{i}", "fanout": f} for i, f in enumerate(n.get("fan", []))]

    def comp_kwargs(n):
        kw = {"name": n["name"], "spatial": spatial(n), "area": n.get("area", 1), "leak_power": n.get("leak", 1)}
        for k in ("area_scale", "leak_power_scale", "energy_scale", "throughput_scale", "n_parallel_instances"):
            if k in n:
                kw[k] = n[k]
        acts = []
        for a in ACTIONS[n["t"]]:
            d = {"name": a, **n.get("actions", {}).get(a, {"energy": 1, "throughput": 1})}
            acts.append(d)
        kw["actions"] = acts
        return kw

    def node(n):
        t = n["t"]
        if t == "Memory":
            return A.Memory(size="inf", **comp_kwargs(n))
        if t == "Toll":
            return A.Toll(direction="up_and_down", **comp_kwargs(n))
        if t == "Compute":
            return A.Compute(**comp_kwargs(n))
        if t == "Container":
            return A.Container(name=n["name"], spatial=spatial(n))
        if t == "Fork":
            return A.Fork(nodes=[node(c) for c in n["nodes"]])
        if t == "Hier":
            return A.Hierarchical(nodes=[node(c) for c in n["nodes"]])
        raise ValueError(t)

    return A.Arch(nodes=[node(c) for c in tree["nodes"]])


def build_spec(tree, workload=None):
    """Spec with explicit costs only: hwcomponents models are switched off as the documentation
    describes (config.component_models=[], use_installed_component_models=False)."""
    from accelforge import Spec

    kw = {"arch": build_arch(tree), "config": {"component_models": [], "use_installed_component_models": False}}
    if workload is not None:
        kw["workload"] = workload
    return Spec(**kw)
