"""Concrete-mapping generator (single Einsum) shared by C05 / C06 / C31.

A *concrete-mapping descriptor* is
{
  "spec": <G-SPEC descriptor (vf.gen.spec)>,
  "tree": [ {"k": "storage", "level": L, "tensors": [...]}, {"k": "loop", "rv": r, "tile": T}, ...,
            {"k": "compute", "einsum": E, "level": C} ]
}
and converts both to an accelforge Mapping (to_af_mapping) and to RefExec inputs (to_ref).
"""

from __future__ import annotations

import math

from hypothesis import strategies as st

from vf.gen import spec as G


def divisors(n):
    return [d for d in range(1, n + 1) if n % d == 0]


@st.composite
def divisor_chain(draw, bound, max_loops=3):
    """tile shapes t1 > t2 > ... > tk = 1, each dividing the previous one and `bound`."""
    if bound == 1:
        return [1] if draw(st.booleans()) else []
    chain = [1]
    cur = 1
    nloops = draw(st.integers(1, max_loops))
    for _ in range(nloops - 1):
        cands = [d for d in divisors(bound) if d > cur and d % cur == 0 and d < bound]
        if not cands:
            break
        cur = draw(st.sampled_from(cands))
        chain.append(cur)
    return list(reversed(chain))


SHAPES = {
    "matmul": ([["A", ["m", "k"], False], ["B", ["k", "n"], False], ["Z", ["m", "n"], True]], ["m", "k", "n"]),
    "matvec": ([["A", ["m", "k"], False], ["x", ["k"], False], ["y", ["m"], True]], ["m", "k"]),
    "elementwise": ([["A", ["m", "n"], False], ["B", ["m", "n"], False], ["Z", ["m", "n"], True]], ["m", "n"]),
    "batched": ([["A", ["b", "m", "k"], False], ["B", ["k", "n"], False], ["Z", ["b", "m", "n"], True]],
                ["b", "m", "k", "n"]),
    "outer": ([["a", ["m"], False], ["b", ["n"], False], ["Z", ["m", "n"], True]], ["m", "n"]),
    "reduce": ([["A", ["m", "k"], False], ["y", ["m"], True]], ["m", "k"]),
}


@st.composite
def single_einsum_workload(draw, shapes=tuple(SHAPES), max_bound=6, max_ops=400):
    shape = draw(st.sampled_from(list(shapes)))
    tens, rvs = SHAPES[shape]
    bounds = {rv: draw(st.sampled_from([b for b in [1, 2, 2, 3, 4, 4, 6, 6] if b <= max_bound])) for rv in rvs}
    while math.prod(bounds.values()) > max_ops:
        big = max(bounds, key=lambda r: bounds[r])
        bounds[big] = max(1, bounds[big] // 2)
    return {"shape": shape, "einsums": [{"name": "E", "tensors": [list(t) for t in tens]}], "bounds": bounds}


@st.composite
def loop_nest(draw, bounds, max_loops=3):
    """interleaving of per-variable divisor chains -> list of loop nodes (outer first)"""
    chains = {rv: draw(divisor_chain(b, max_loops)) for rv, b in bounds.items()}
    seqs = [[(rv, t) for t in ch] for rv, ch in chains.items() if ch]
    out = []
    while any(seqs):
        nonempty = [s for s in seqs if s]
        s = draw(st.sampled_from(nonempty)) if len(nonempty) > 1 else nonempty[0]
        out.append({"k": "loop", "rv": s[0][0], "tile": s[0][1]})
        s.pop(0)
    return out


@st.composite
def place_storage(draw, loops, tensors, lower_levels):
    """Insert storage nodes for the lower memory levels into the loop list and return the
    node list (without the top-level storage and the compute).  Slot p = just above loop p
    (slot len(loops) = directly above the compute).  Per-tensor hierarchy order holds: a lower
    level's node for t is never above a higher level's node for t."""
    nl = len(loops)
    placed = {}
    for li, level in enumerate(lower_levels):
        for t in tensors:
            if draw(st.integers(0, 9)) < 3:
                continue
            lo = 0
            for lj in range(li):
                lo = max(lo, placed.get((lower_levels[lj], t), 0))
            placed[(level, t)] = draw(st.integers(lo, nl))
    nodes = []
    for p in range(nl + 1):
        for level in lower_levels:
            ts = sorted(t for (lv, t), q in placed.items() if lv == level and q == p)
            if not ts:
                continue
            if len(ts) > 1 and draw(st.booleans()):
                for t in ts:
                    nodes.append({"k": "storage", "level": level, "tensors": [t]})
            else:
                nodes.append({"k": "storage", "level": level, "tensors": ts})
        if p < nl:
            nodes.append(loops[p])
    return nodes


def to_af_mapping(tree):
    from accelforge.frontend.mapping import Compute, Mapping, Storage, Temporal, Sequential, Nested
    from accelforge.frontend.mapping import Toll as MToll
    from accelforge.frontend.mapping import Spatial as MSpatial

    def conv(nodes):
        out = []
        for n in nodes:
            k = n["k"]
            if k == "storage":
                kw = {}
                if n.get("persistent"):
                    kw["persistent"] = True
                out.append(Storage(tensors=list(n["tensors"]), component=n["level"], **kw))
            elif k == "toll":
                out.append(MToll(tensors=list(n["tensors"]), component=n["level"]))
            elif k == "loop":
                out.append(Temporal(rank_variable=n["rv"], tile_shape=n["tile"]))
            elif k == "spatial":
                out.append(MSpatial(rank_variable=n["rv"], tile_shape=n["tile"], name=n["name"], component=n["component"]))
            elif k == "compute":
                out.append(Compute(einsum=n["einsum"], component=n["level"]))
            elif k == "seq":
                out.append(Sequential(nodes=[Nested(nodes=conv(b)) for b in n["branches"]]))
            else:
                raise ValueError(k)
        return out

    return Mapping(nodes=conv(tree))


def to_ref(desc):
    """-> (einsums, bounds, comps, wl_bits) for vf.ref.looptree_exec"""
    sp = desc["spec"]
    einsums = {e["name"]: [(t, list(p), bool(o)) for t, p, o in e["tensors"]] for e in sp["einsums"]}
    tensors = sorted({t for tl in einsums.values() for t, _, _ in tl})
    wl_bits = {}
    bits = sp.get("bits", {"All": 8})
    for t in tensors:
        if t in bits:
            wl_bits[t] = bits[t]
        elif "All" in bits:
            wl_bits[t] = bits["All"]
        else:
            wl_bits[t] = next(v for k, v in bits.items() if k.startswith("~") and k[1:] != t)
    comps = {}
    for i, n in enumerate(sp["nodes"]):
        if n["type"] == "Container":
            continue
        kind = {"Memory": "memory", "Toll": "toll", "Compute": "compute"}[n["type"]]
        c = {"kind": kind, "order": i, "leak": G.num(n.get("leak", 0)),
             "skip": n.get("skip_initial_output_write", True),
             "bits_per_value": dict(n.get("bits_per_value", {})),
             "bits_per_action": n.get("bits_per_action"),
             "values_per_action": dict(n.get("values_per_action", {})),
             "actions": {}}
        if kind == "compute":
            e, tp = n.get("compute", [1, 1])
            c["actions"]["compute"] = {"energy": G.num(e), "throughput": G.num(tp)}
        else:
            names = ["read", "write"] if kind == "memory" else ["read"]
            for a in names:
                e, tp = n.get(a, [1, "inf"])
                ex = n.get(a + "_extra") or {}
                c["actions"][a] = {"energy": G.num(e), "throughput": G.num(tp),
                                   "bits_per_action": ex.get("bits_per_action"),
                                   "values_per_action": dict(ex.get("values_per_action", {}))}
            if kind == "memory":
                c["size"] = G.num(n["size"])
            else:
                c["direction"] = n.get("direction", "up_and_down")
        comps[n["name"]] = c
    return einsums, dict(sp["bounds"]), comps, wl_bits
