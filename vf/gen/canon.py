"""Canon: plain-data view and canonical string of a returned accelforge Mapping tree.

``tree(mapping)`` converts a Mapping (as returned by ``Mappings.mapping(i)`` or built by
``Total<SEP>mapping(_for_model=True)``) into the nested JSON-able node list used by the
harness (the same vocabulary as vf/ref/looptree_exec.py, plus spatial/reservation detail):

  {"k": "storage"|"toll", "level": L, "tensors": [...], "persistent": bool}
  {"k": "loop", "rv": r, "tile": T, "n_it": n|None, "spatial": null | [component, dim]}
  {"k": "seq", "branches": [[...], ...], "kind": "Sequential"|...}
  {"k": "compute", "einsum": E, "level": C}
  {"k": "reservation", "level": L, "tensors": [...]}         (only with reservations=True)

``canon(mapping)`` is a canonical string of that tree (tensors sorted inside a node,
reservations dropped) used to match rows across mapper runs and for fingerprints.
``Mapping.to_yaml()`` raises on mapper output, hence the explicit traversal.
"""

from __future__ import annotations

import json


class Unsupported(Exception):
    pass


def _num(x):
    if x is None:
        return None
    try:
        f = float(x)
    except Exception:  # noqa: BLE001  (symbolic tile shape left in a returned mapping)
        raise Unsupported(f"non-numeric tile attribute {x!r}")
    return int(f) if f == int(f) else f


def _rv(rv):
    if isinstance(rv, (set, frozenset)) or (hasattr(rv, "__iter__") and not isinstance(rv, str)):
        names = sorted(str(x) for x in rv)
        if len(names) != 1:
            raise Unsupported(f"loop over several rank variables {names}")
        return names[0]
    return str(rv)


def tree(node, reservations=False):
    from accelforge.frontend.mapping import mapping as M

    out = []
    for n in node.nodes:
        if isinstance(n, M.Split):
            out.append({"k": "seq", "kind": type(n).__name__, "branches": [tree(b, reservations) for b in n.nodes]})
        elif isinstance(n, M.Nested):
            out.extend(tree(n, reservations))
        elif isinstance(n, M.Loop):
            sp = [str(n.component), str(n.name)] if isinstance(n, M.Spatial) else None
            out.append({"k": "loop", "rv": _rv(n.rank_variable), "tile": _num(n.tile_shape),
                        "init": _num(n.initial_tile_shape), "n_it": _num(n.calculated_n_iterations), "spatial": sp})
        elif isinstance(n, M.TensorHolder):
            out.append({"k": "toll" if isinstance(n, M.Toll) else "storage", "level": str(n.component),
                        "tensors": [str(t) for t in n.tensors], "persistent": bool(n.persistent)})
        elif isinstance(n, M.Compute):
            out.append({"k": "compute", "einsum": str(n.einsum), "level": str(n.component)})
        elif isinstance(n, M.Reservation):
            if reservations:
                out.append({"k": "reservation", "level": str(n.resource), "tensors": [str(t) for t in n.purposes]})
        else:
            raise Unsupported(f"unknown mapping node {type(n).__name__}")
    return out


def _canon_nodes(nodes):
    out = []
    for n in nodes:
        k = n["k"]
        if k == "seq":
            out.append(["seq", n.get("kind"), [_canon_nodes(b) for b in n["branches"]]])
        elif k == "loop":
            out.append(["loop", n["rv"], n["tile"], n.get("init"), n.get("spatial")])
        elif k in ("storage", "toll"):
            out.append([k, n["level"], sorted(n["tensors"])])
        elif k == "compute":
            out.append(["compute", n["einsum"], n["level"]])
    return out


def canon_tree(nodes) -> str:
    return json.dumps(_canon_nodes(nodes), sort_keys=True, separators=(",", ":"))


def canon(mapping) -> str:
    return canon_tree(tree(mapping))


def show(nodes):
    """compact human-readable form for evidence samples"""
    out = []
    for n in nodes:
        k = n["k"]
        if k == "loop":
            s = f"for {n['rv']} tile {n['tile']}"
            if n.get("spatial"):
                s = f"S[{n['spatial'][0]}.{n['spatial'][1]}] " + s
            out.append(s)
        elif k in ("storage", "toll"):
            out.append(f"{n['level']}{'~' if k == 'toll' else ''}[{','.join(n['tensors'])}]")
        elif k == "seq":
            out.append({"seq": [show(b) for b in n["branches"]]})
        elif k == "compute":
            out.append(f"compute {n['einsum']}@{n['level']}")
    return out


def exec_tree(nodes):
    """-> tree for vf.ref.looptree_exec (spatial loops become ordinary loops: for the peak occupancy of
    one instance of a memory a spatial loop and a temporal loop over the same tiles are equivalent)"""
    out = []
    for n in nodes:
        k = n["k"]
        if k == "loop":
            out.append({"k": "loop", "rv": n["rv"], "tile": n["tile"]})
        elif k in ("storage", "toll"):
            out.append({"k": k, "level": n["level"], "tensors": list(n["tensors"])})
        elif k == "seq":
            out.append({"k": "seq", "branches": [exec_tree(b) for b in n["branches"]]})
        elif k == "compute":
            out.append({"k": "compute", "einsum": n["einsum"], "level": n["level"]})
    return out


def paths(nodes, prefix=None):
    """every root-to-compute path as a flat node list (splits resolved)"""
    prefix = list(prefix or [])
    for i, n in enumerate(nodes):
        if n["k"] == "seq":
            out = []
            for b in n["branches"]:
                out += paths(b, prefix)
            return out
        prefix.append(n)
    return [prefix]
