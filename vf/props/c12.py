"""C12 — pmapping-table Pareto pruning respects objectives, reservations and tolerances.

Hypothesis builds pandas tables whose columns follow df_convention (Total<SEP>* objectives,
reservation<SEP>mem<SEP>n<SEP>left|right, fused_loop<SEP>* tile shapes and n_iterations, tensor<SEP>*,
<einsum><SEP>mapping, other per-Einsum columns), a tolerance triple and an entry point
(makepareto / PmappingDataframe.make_pareto / PmappingDataframe(skip_pareto=False)).

Oracle
  * all tolerances zero: kept index list == RefPareto (vf/ref/pareto.py) over objective+reservation
    columns (min) grouped by fused-loop tile-shape columns and explicit split_by_cols (diff);
  * otherwise (one-directional, as the statement): (a) every dropped row has a kept row in its group
    that is <= d*(1+t) on every objective and <= d*(1+t_r)+a on every reservation; (b) no kept row is
    certainly dominated by another kept row of its group after the documented rounding
    (vf/ref/tolround.py, with explicit uncertainty near rounding boundaries);
  * the returned rows are the input rows, untouched (rounding must not leak into the data);
  * metamorphic: inserting a constant column of any class never changes the kept index list.
"""

import struct

from hypothesis import strategies as st

from vf.core import Violation, drive, hash32, must
from vf.ref import tolround as T
from vf.ref.pareto import ref_pareto_mask

PROPERTY = "C12"
LEVEL = "exploration"
RULE = (
    "Hypothesis-generated tables (1-200 rows): 1-3 objective columns, 0-3 reservation columns, 0-2 fused-loop "
    "tile-shape columns (+ derived n_iterations columns in both naming styles), 0-2 explicit split_by_cols, tensor/"
    "mapping/other columns, shuffled column order, dtypes float32/float64/int64/uint8/object, RangeIndex or index "
    "with gaps; values from small level pools (ties, dominance, constants, zeros) on a quarter-step log grid of "
    "the drawn tolerance (or on a*(k+f) around the multiples of the absolute tolerance), all float32-exact. "
    "Tolerance scenarios: zero (30%), objective only {.01,.1,.5,1}, reservation relative {.01,.1,.5}, reservation "
    "absolute {.01,.05,.1}, both, and the real caller's absolute = relative / n_einsums. Entry points: makepareto, "
    "PmappingDataframe.make_pareto (drop_valid_reservations on/off, inplace on/off), PmappingDataframe("
    "skip_pareto=False). Each case is run twice: as is, and with one extra constant column of a drawn class. "
    "Non-trivial: >=2 fused-loop groups, >=1 varying reservation column, >=1 row dropped and >=2 kept. "
    "Distinct = distinct descriptor."
)
ASSUMPTIONS = [
    "all numeric cells are float32-exact and differ by far more than float32 resolution (the filter computes in "
    "float32 by design); integers < 2**24",
    "no NaN, no inf, no negative values (C11 covers +inf); zeros are generated (they switch log rounding off)",
    "n_iterations columns are a function of a tile-shape column of the same table (same tile shapes => same "
    "iterations, as the code comments state), so it never matters whether they are used for grouping",
    "coverage bound used for dropped rows: objectives k <= d*(1+t); reservations k <= d*(1+t_r) + a; float slack 1e-4",
    "rounding model for 'kept rows are not dominated after rounding': nearest point of {(1+t)^n} / nearest multiple "
    "of a / element-wise switch at t*x > a; values within 5e-3 grid steps of a boundary count as either side",
    "PmappingDataframe.make_pareto: the reservation tolerance in force is resource_usage_tolerance when "
    "drop_valid_reservations is on (RESOURCE_USAGE not a metric) and objective_tolerance otherwise, as documented "
    "in frontend/mapper/ffm.py and implemented in make_pmappings_from_templates.py:335 and make_tile_shapes.py:2362",
]
TOLERANCE = "exact at zero tolerance; rel 1e-4 slack on the (1+t) / +a coverage bounds"

# Sensitivity runs (scratch worktree, quick tier, seed 1).  On the unchanged tree every run also reports the
# genuine finding make_pareto:tolerance-swap-inverted (see regress/C12/), so "caught" means: an additional key.
MUTANTS = [
    {"what": "makepareto: fused-loop / split_by_cols columns get goal 'min' instead of 'diff'", "caught": True,
     "key": "exact:drops-nondominated, tol:dropped-uncovered"},
    {"what": "logscale_to_tolerance: np.floor instead of np.round", "caught": True,
     "key": "tol:kept-dominated-after-rounding",
     "note": "does not break the (1+t) coverage bound of the statement; caught by oracle part (b) only"},
    {"what": "makepareto: default columns = objective columns only (reservation columns skipped)", "caught": True,
     "key": "exact:drops-nondominated, tol:dropped-uncovered"},
    {"what": "makepareto: constant-column test ignores the last row ((arr[:-1] == arr[0]).all())", "caught": True,
     "key": "exact:drops-nondominated, tol:dropped-uncovered"},
    {"what": "logscale_to_tolerance: grid base 1 + 2*tolerance", "caught": True, "key": "tol:dropped-uncovered"},
    {"what": "round_to_tolerance: step 2*tolerance", "caught": True,
     "key": "tol:dropped-uncovered, tol:kept-dominated-after-rounding",
     "note": "survived the first generator (absolute-only tolerance was rare, values far from the a-grid); "
             "caught after adding the res-abs scenario and a*(k+f) reservation levels"},
    {"what": "multi_round: use_log_mask inverted (log_step_size < abs_step_size)", "caught": True,
     "key": "tol:kept-dominated-after-rounding"},
    {"what": "makepareto: objectives rounded with resource_usage_tolerance", "caught": True,
     "key": "exact:drops-nondominated, tol:dropped-uncovered"},
    {"what": "makepareto: `break` instead of `continue` at a constant column", "caught": True,
     "key": "constant-column-changes-result:*, exact:drops-nondominated, tol:dropped-uncovered"},
    {"what": "makepareto: rounded columns written back into the table", "caught": True, "key": "values-modified"},
]

SEP = "<SEP>"
E = "Matmul0"
OBJ_NAMES = ["Total<SEP>energy", "Total<SEP>latency", "Total<SEP>leak_energy"]
RES_NAMES = ["reservation<SEP>GlobalBuffer<SEP>0<SEP>right", "reservation<SEP>GlobalBuffer<SEP>1<SEP>right",
             "reservation<SEP>GlobalBuffer<SEP>1<SEP>left", "reservation<SEP>LocalBuffer<SEP>2<SEP>right"]
TILE_NAMES = [f"fused_loop<SEP>{E}<SEP>stride<SEP>M<SEP>0", f"fused_loop<SEP>{E}<SEP>stride<SEP>N1<SEP>1"]
SPLIT_NAMES = [f"{E}<SEP>n_iterations<SEP>0", f"{E}<SEP>stride1"]
OTHER_NAMES = [f"{E}<SEP>energy<SEP>MainMemory<SEP>T0<SEP>read", f"{E}<SEP>compressed_index", f"{E}<SEP>stride3"]
TILE_LEVELS = [1, 2, 4, 8, 16]


def f32(x):
    return struct.unpack("f", struct.pack("f", x))[0]


def _obj_levels(base, t, dtype, with_zero):
    if dtype == "int64":
        lv = [int(base) * (e + 1) for e in range(16)]
    else:
        r = (1.0 + (t if t else 0.1)) ** 0.25
        lv = [f32(base * r ** e) for e in range(16)]
    if with_zero:
        lv = [0 if dtype == "int64" else 0.0] + lv[:-1]
    return lv


def _res_levels(t, a, absgrid):
    """Reservation levels (fractions of capacity).  With an absolute tolerance and absgrid: points a*(k+f) around
    the multiples of a (f just below/above the rounding boundary .5), else small dyadic fractions plus a
    quarter-step log grid of the relative tolerance."""
    if a and absgrid:
        lv = sorted({f32(a * (k + f)) for k in range(7) for f in (0.0, 0.3, 0.45, 0.55, 0.7)})
        return [v for v in lv if v <= 1.5]
    r = (1.0 + (t if t else 0.1)) ** 0.25
    lv = [0.0, 1 / 1024, 3 / 1024, 5 / 1024, 1 / 64, 2 / 64, 3 / 64, 5 / 64, 8 / 64, 0.25]
    lv += [f32(0.3 * r ** e) for e in range(12)]
    return lv


@st.composite
def tables(draw):
    entry = draw(st.sampled_from(["makepareto", "makepareto", "make_pareto", "make_pareto", "ctor"]))
    scen = "zero" if entry == "ctor" else draw(st.sampled_from(
        ["zero", "zero", "zero", "obj", "res-rel", "res-abs", "res-abs", "both", "both", "caller"]))
    t = tr = a = 0.0
    if scen == "obj":
        t = draw(st.sampled_from([0.01, 0.1, 0.5, 1.0]))
    elif scen == "res-rel":
        t, tr = draw(st.sampled_from([0.0, 0.1, 0.5])), draw(st.sampled_from([0.01, 0.1, 0.5]))
    elif scen == "res-abs":
        t, a = draw(st.sampled_from([0.0, 0.0, 0.1])), draw(st.sampled_from([0.01, 0.05, 0.1]))
    elif scen == "both":
        t, tr, a = (draw(st.sampled_from([0.0, 0.1, 0.5, 1.0])), draw(st.sampled_from([0.01, 0.1, 0.5])),
                    draw(st.sampled_from([0.01, 0.1])))
    elif scen == "caller":      # make_pmappings_from_templates: absolute = relative / number of Einsums
        t, tr = draw(st.sampled_from([0.01, 0.1, 0.5])), draw(st.sampled_from([0.01, 0.1, 0.5]))
        a = tr / draw(st.sampled_from([1, 2, 3]))
    drop_valid = draw(st.booleans())
    inplace = draw(st.booleans())
    n = draw(st.sampled_from([1, 2, 3, 5, 8, 8, 13, 13, 30, 30, 60, 120, 200]))

    specs = []  # (name, kind, dtype, levels, nlev, offset)
    n_obj = draw(st.sampled_from([1, 2, 2, 3]))
    for k in range(n_obj):
        dt = draw(st.sampled_from(["float32", "float32", "float64", "int64"]))
        base = draw(st.sampled_from([1.0, 4096.0, 141312.0]))
        lv = _obj_levels(base, t, dt, draw(st.sampled_from([False] * 7 + [True])))
        specs.append((OBJ_NAMES[k], "objective", dt, lv, draw(st.sampled_from([1, 2, 3, 5, 16])), 0))
    n_res = draw(st.sampled_from([0, 1, 1, 1, 2, 2, 3]))
    rl = _res_levels(tr if entry != "make_pareto" else max(t, tr), a, draw(st.booleans()))
    res_order = draw(st.permutations(RES_NAMES))
    for k in range(n_res):
        dt = draw(st.sampled_from(["float32", "float32", "float64"]))
        specs.append((res_order[k], "reservation", dt, rl,
                      draw(st.sampled_from([1, 2, 3, 3, 6, 6, 22, 35])), draw(st.sampled_from([0, 1, 1, 4, 4, 8, 8, 10]))))
    n_tile = draw(st.sampled_from([0, 1, 1, 1, 2, 2]))
    for k in range(n_tile):
        dt = draw(st.sampled_from(["uint8", "int64", "float64"]))
        specs.append((TILE_NAMES[k], "tile", dt, TILE_LEVELS, draw(st.sampled_from([1, 2, 2, 3, 5])), 0))
        style = draw(st.sampled_from(["none", "real", "convention"]))
        if style != "none":
            nm = f"fused_loop<SEP>{E}<SEP>n_iterations<SEP>{k}" if style == "real" else f"fused_loop<SEP>n_iterations<SEP>{k}"
            specs.append((nm, "niter", "float64", TILE_NAMES[k], 0, 0))
    n_split = draw(st.sampled_from([0, 0, 1, 2])) if entry == "makepareto" else 0
    for k in range(n_split):
        specs.append((SPLIT_NAMES[k], "split", draw(st.sampled_from(["float64", "uint8"])), TILE_LEVELS,
                      draw(st.sampled_from([1, 2, 3])), 0))
    if draw(st.booleans()):
        specs.append(("tensor<SEP>T1", "tensor", "float32", [f32(j / 512) for j in range(16)], 16, 0))
    specs.append((f"{E}<SEP>mapping", "mapping", "object", [f"id-{j:02d}" for j in range(16)],
                  draw(st.sampled_from([1, 2, 16])), 0))
    for k in range(draw(st.integers(0, 2))):
        specs.append((OTHER_NAMES[k], "other", "float64" if k != 1 else "int64", list(range(100, 116)), 16, 0))
    specs = draw(st.permutations(specs))

    shape = draw(st.sampled_from(["random", "random", "dups", "plane"]))
    if shape == "plane":
        # many mutually non-dominated rows inside one fused-loop group: all objective/reservation columns get their
        # full level range and the rows are put on an anti-diagonal plane (the block-structured part of the filter
        # is only reached with > 16 survivors in >= 3 varying columns)
        n = max(n, draw(st.sampled_from([60, 120, 200])))
        specs = [(nm, kd, dt, lv, (min(16, len(lv)) if kd in ("objective", "reservation") else nl), (0 if kd in ("objective", "reservation") else off))
                 for (nm, kd, dt, lv, nl, off) in specs]
    idx = draw(st.lists(st.lists(st.integers(0, 15), min_size=len(specs), max_size=len(specs)), min_size=n, max_size=n))
    if shape == "plane":
        wide = [c for c, sp_ in enumerate(specs) if sp_[1] in ("objective", "reservation") and sp_[4] >= 5]
        if len(wide) >= 3:
            tot = draw(st.integers(len(wide) * 3, len(wide) * 9))
            for r in idx:
                rest = sum(r[c] % specs[c][4] for c in wide[:-1])
                r[wide[-1]] = (tot - rest) % specs[wide[-1]][4]
            # a minority of rows are copies of a plane row made worse in one or two columns: each is dominated
            # by exactly the row it was copied from (and by little else)
            worse = draw(st.lists(st.tuples(st.integers(0, n - 1), st.integers(0, n - 1), st.integers(0, len(wide) - 1),
                                            st.integers(1, 2)), min_size=n // 8, max_size=n // 3))
            for dst, src, k, inc in worse:
                if dst != src:
                    idx[dst] = list(idx[src])
                    c = wide[k]
                    idx[dst][c] = min(idx[src][c] % specs[c][4] + inc, specs[c][4] - 1)
    if shape == "dups" and n >= 2:
        for a_, b_ in draw(st.lists(st.tuples(st.integers(0, n - 1), st.integers(0, n - 1)), max_size=8)):
            idx[b_] = list(idx[a_])
    cols = []
    by_name = {}
    for c, (name, kind, dt, lv, nlev, off) in enumerate(specs):
        if kind == "niter":
            continue
        vals = [lv[min(off + r[c] % nlev, len(lv) - 1)] for r in idx]
        by_name[name] = vals
        cols.append({"name": name, "kind": kind, "dtype": dt, "values": vals})
    out = []
    for c, (name, kind, dt, lv, nlev, off) in enumerate(specs):
        if kind == "niter":
            out.append({"name": name, "kind": kind, "dtype": dt, "values": [64.0 / v for v in by_name[lv]]})
        else:
            out.append(next(x for x in cols if x["name"] == name))
    ik = draw(st.sampled_from(["range", "range", "offset", "gaps"]))
    salt = draw(st.integers(0, 999))
    if ik == "range":
        index = list(range(n))
    elif ik == "offset":
        index = list(range(74, 74 + n))
    else:
        index = [3 * i + hash32(salt, i) % 3 for i in range(n)]
    ckind = draw(st.sampled_from(["objective", "reservation", "tile", "niter", "tensor", "mapping", "other"]))
    const = {
        "objective": {"name": "Total<SEP>extra_objective", "dtype": "float32", "value": 7.5},
        "reservation": {"name": "reservation<SEP>ExtraBuffer<SEP>0<SEP>right", "dtype": "float32", "value": 0.625},
        "tile": {"name": f"fused_loop<SEP>{E}<SEP>stride<SEP>Z<SEP>9", "dtype": "uint8", "value": 4},
        "niter": {"name": f"fused_loop<SEP>{E}<SEP>n_iterations<SEP>9", "dtype": "float64", "value": 16.0},
        "tensor": {"name": "tensor<SEP>T9", "dtype": "float32", "value": 0.5},
        "mapping": {"name": "Extra<SEP>mapping", "dtype": "object", "value": "id-99"},
        "other": {"name": f"{E}<SEP>latency<SEP>MAC", "dtype": "int64", "value": 4096},
    }[ckind]
    const = {**const, "kind": ckind, "pos": draw(st.integers(0, len(out)))}
    return {"entry": entry, "obj_tol": t, "res_tol": tr, "abs_tol": a, "drop_valid_reservations": drop_valid,
            "inplace": inplace, "index": index, "cols": out, "const": const}


# ---------------------------------------------------------------------------------------------

def _frame(cols, index):
    import numpy as np
    import pandas as pd

    data = {}
    for c in cols:
        if c["dtype"] == "object":
            data[c["name"]] = pd.Series(list(c["values"]), index=index, dtype=object)
        else:
            data[c["name"]] = pd.Series(np.array(c["values"], dtype=c["dtype"]), index=index)
    return pd.DataFrame(data, index=index, columns=[c["name"] for c in cols])


def _run(desc, cols):
    """-> (kept index list, returned frame, input frame as the code saw it)"""
    from accelforge.mapper.FFM._pareto_df.pareto import makepareto
    from accelforge.mapper.FFM._join_pmappings.pmapping_dataframe import PmappingDataframe
    from accelforge.util._frozenset import oset

    df = _frame(cols, desc["index"])
    entry = desc["entry"]
    if entry == "makepareto":
        split = [c["name"] for c in cols if c["kind"] == "split"]
        before = df.copy()
        res = must(makepareto, df, None, split, resource_usage_tolerance=desc["res_tol"],
                   objective_tolerance=desc["obj_tol"], absolute_resource_usage_tolerance=desc["abs_tol"],
                   what="makepareto")
    elif entry == "ctor":
        before = df.copy()
        pdf = must(PmappingDataframe, df, 1, 1, ignored_resources=oset(),
                   drop_valid_reservations=desc["drop_valid_reservations"], skip_pareto=False,
                   what="PmappingDataframe(skip_pareto=False)")
        res = pdf.data
    else:
        pdf = PmappingDataframe(df, 1, 1, ignored_resources=oset(),
                                drop_valid_reservations=desc["drop_valid_reservations"], skip_pareto=True)
        before = pdf.data.copy()
        out = must(pdf.make_pareto, objective_tolerance=desc["obj_tol"], resource_usage_tolerance=desc["res_tol"],
                   absolute_resource_usage_tolerance=desc["abs_tol"], inplace=desc["inplace"],
                   what="PmappingDataframe.make_pareto")
        res = out.data
        if desc["inplace"] and out is not pdf:
            raise Violation("make_pareto(inplace=True) did not return self", key="make_pareto:inplace")
        if not desc["inplace"] and len(pdf.data) != len(before):
            raise Violation("make_pareto(inplace=False) modified the table it was called on", key="make_pareto:inplace")
    return list(res.index), res, before


def _oracle(desc, kept, res_tol_eff):
    """Raise Violation if `kept` (list of index labels) contradicts the property for the base table."""
    cols, index = desc["cols"], desc["index"]
    n = len(index)
    pos = {lab: i for i, lab in enumerate(index)}
    t, a = desc["obj_tol"], desc["abs_tol"]
    par = [c for c in cols if c["kind"] in ("objective", "reservation")]
    grp = [c for c in cols if c["kind"] in ("tile", "split")]
    gkey = [tuple(float(c["values"][i]) for c in grp) for i in range(n)]
    if len(set(kept)) != len(kept) or any(k not in pos for k in kept):
        raise Violation(f"result index {kept[:10]} is not a duplicate-free subset of the input index", key="bad-index")
    kp = [pos[k] for k in kept]
    if kp != sorted(kp):
        raise Violation("result rows are not in input order", key="row-order")
    keptset = set(kp)

    def tol_of(c):
        return (t, 0.0) if c["kind"] == "objective" else (res_tol_eff, a)

    if all(not tol_of(c)[0] and not tol_of(c)[1] for c in par):
        rows = [[float(c["values"][i]) for c in par] + list(gkey[i]) for i in range(n)]
        goals = ["min"] * len(par) + ["diff"] * len(grp)
        ref = ref_pareto_mask(rows, goals)
        want = [i for i in range(n) if ref[i]]
        if kp != want:
            wd = [index[i] for i in want if i not in keptset]
            wk = [index[i] for i in kp if not ref[i]]
            kind = "drops-nondominated" if wd else "keeps-dominated"
            raise Violation(
                f"zero tolerance: kept rows differ from the exact Pareto set ({kind}): wrongly dropped index labels "
                f"{wd[:6]}, wrongly kept {wk[:6]} (n={n}, pareto columns {[c['name'] for c in par]}, group columns "
                f"{[c['name'] for c in grp]})", key=f"exact:{kind}")
        return
    # -- tolerance: (a) coverage of dropped rows ------------------------------------------------
    vals = [[float(v) for v in c["values"]] for c in par]
    tols = [tol_of(c) for c in par]
    kept_by_group = {}
    for i in kp:
        kept_by_group.setdefault(gkey[i], []).append(i)
    for d in range(n):
        if d in keptset:
            continue
        bounds = [T.upper_bound(vals[j][d], *tols[j]) for j in range(len(par))]
        if not any(all(vals[j][k] <= bounds[j] for j in range(len(par))) for k in kept_by_group.get(gkey[d], ())):
            raise Violation(
                f"tolerance (obj {t}, res {res_tol_eff}, abs {a}): dropped row {index[d]} "
                f"{dict((c['name'], vals[j][d]) for j, c in enumerate(par))} has no kept row in its fused-loop group "
                f"within the documented slack; kept rows of the group: "
                f"{[[vals[j][k] for j in range(len(par))] for k in kept_by_group.get(gkey[d], ())][:4]}",
                key="tol:dropped-uncovered")
    # -- (b) kept rows not certainly dominated after rounding -------------------------------------
    varying = [j for j in range(len(par)) if len(set(vals[j])) > 1]
    rc = {j: T.round_column(vals[j], *tols[j]) for j in varying}
    for g, members in kept_by_group.items():
        for i in members:
            for k in members:
                if k == i:
                    continue
                if all(T.sure_le(rc[j][k], rc[j][i]) for j in varying) and any(
                        T.sure_lt(rc[j][k], rc[j][i]) for j in varying):
                    raise Violation(
                        f"tolerance (obj {t}, res {res_tol_eff}, abs {a}): kept row {index[i]} is dominated by kept "
                        f"row {index[k]} after rounding: {[vals[j][i] for j in varying]} vs "
                        f"{[vals[j][k] for j in varying]} on {[par[j]['name'] for j in varying]}",
                        key="tol:kept-dominated-after-rounding")


def _doc_and_code_res_tol(desc):
    """Reservation tolerance in force: (documented, as-coded alternative or None)."""
    if desc["entry"] != "make_pareto":
        return desc["res_tol"], None
    doc = desc["res_tol"] if desc["drop_valid_reservations"] else desc["obj_tol"]
    code = desc["obj_tol"] if desc["drop_valid_reservations"] else desc["res_tol"]
    return doc, (code if code != doc else None)


def check(desc, col):
    cols, index = desc["cols"], desc["index"]
    n = len(index)
    t, tr, a = desc["obj_tol"], desc["res_tol"], desc["abs_tol"]
    doc_tol, alt_tol = _doc_and_code_res_tol(desc)

    kept, res, before = _run(desc, cols)

    # ---- classification ------------------------------------------------------------------
    grp = [c for c in cols if c["kind"] in ("tile", "split")]
    ngroups = len({tuple(c["values"][i] for c in grp) for i in range(n)})
    res_cols = [c for c in cols if c["kind"] == "reservation"]
    res_vary = any(len(set(c["values"])) > 1 for c in res_cols)
    consts = [c["kind"] for c in cols if len(set(c["values"])) == 1 and n > 1]
    if t == 0 and doc_tol == 0 and (a == 0 or not res_cols):
        tolclass = "tol:zero" if (tr == 0 and a == 0) else "tol:zero-effective"
    else:
        parts = []
        if t:
            parts.append("obj")
        if res_cols and doc_tol and a:
            parts.append("res-rel+abs")
        elif res_cols and doc_tol:
            parts.append("res-rel")
        elif res_cols and a:
            parts.append("res-abs")
        tolclass = "tol:" + ("+".join(parts) if parts else "zero-effective")
    dropped = n - len(kept)
    nontrivial = ngroups >= 2 and res_vary and dropped >= 1 and len(kept) >= 2
    labels = [tolclass, f"entry:{desc['entry']}",
              "groups:" + ("1" if ngroups == 1 else "2-4" if ngroups <= 4 else ">=5"),
              "reservation:" + ("varying" if res_vary else "constant" if res_cols else "none"),
              *(["const-cols:none"] if not consts else ["const-col:" + k for k in sorted(set(consts))]),
              "added-const:" + desc["const"]["kind"],
              "dropped:" + ("0" if dropped == 0 else ">=1"),
              "split_by_cols:" + ("yes" if any(c["kind"] == "split" for c in cols) else "no"),
              "niter-col:" + "/".join(sorted({("real" if E in c["name"] else "convention") for c in cols
                                             if c["kind"] == "niter"}) or ["none"]),
              "index:" + ("range0" if index == list(range(n)) else "other"),
              "rows:" + ("1" if n == 1 else "<=13" if n <= 13 else ">13"),
              "zeros-in-pareto-col" if any(min(c["values"]) <= 0 for c in cols
                                           if c["kind"] in ("objective", "reservation")) else "all-positive"]
    if desc["entry"] == "make_pareto":
        labels.append("make_pareto:drop_valid=" + str(desc["drop_valid_reservations"]) +
                      (",obj!=res" if alt_tol is not None else ""))
    col.case(desc, nontrivial, labels,
             sample={"entry": desc["entry"], "tolerances": [t, tr, a], "rows": n, "groups": ngroups,
                     "columns": [[c["name"], c["dtype"]] for c in cols], "kept": len(kept),
                     "first_rows": [[c["values"][i] for c in cols] for i in range(min(n, 3))]})

    # ---- returned rows are input rows, untouched ------------------------------------------
    if list(res.columns) != list(before.columns):
        raise Violation(f"columns changed: {list(res.columns)} vs {list(before.columns)}", key="columns-changed")
    if all(k in set(before.index) for k in kept) and len(set(kept)) == len(kept):
        if not res.equals(before.loc[kept]):
            raise Violation("returned rows differ from the input rows with the same index labels "
                            "(values were modified by pruning)", key="values-modified")

    # ---- the oracle on the base table --------------------------------------------------------
    try:
        _oracle(desc, kept, doc_tol)
    except Violation as v:
        if alt_tol is None:
            raise
        try:
            _oracle(desc, kept, alt_tol)
        except Violation:
            raise v
        raise Violation(
            f"PmappingDataframe.make_pareto(objective_tolerance={t}, resource_usage_tolerance={tr}) with "
            f"drop_valid_reservations={desc['drop_valid_reservations']} prunes reservations with tolerance {alt_tol} "
            f"instead of the documented {doc_tol} (the swap `if self.drop_valid_reservations: resource_usage_tolerance "
            f"= objective_tolerance` is inverted w.r.t. ffm.py / make_pmappings_from_templates.py:335). Under the "
            f"documented tolerance: {v.message}", key="make_pareto:tolerance-swap-inverted")

    # ---- metamorphic: a constant column never changes the result ----------------------------------
    c = desc["const"]
    extra = {"name": c["name"], "kind": c["kind"], "dtype": c["dtype"], "values": [c["value"]] * n}
    cols2 = cols[:c["pos"]] + [extra] + cols[c["pos"]:]
    kept2, _, _ = _run(desc, cols2)
    if kept2 != kept:
        raise Violation(
            f"adding the constant {c['kind']} column {c['name']} changed the kept rows: {len(kept)} -> {len(kept2)} "
            f"(only in one: {sorted(set(kept) ^ set(kept2))[:8]})", key=f"constant-column-changes-result:{c['kind']}")


N = {"quick": 900, "thorough": 9000}
NSHARDS = 6


def shards(tier, seed):
    return [{"k": k, "n": N[tier] // NSHARDS, "seed": seed} for k in range(NSHARDS)]


def run_shard(shard, col):
    drive(tables(), check, n=shard["n"], seed=hash32(shard["seed"], "C12", shard["k"]), col=col)


def replay(desc, col):
    check(desc, col)


REGISTER = True
MANIFEST = {
    "level_text": "Random exploration: 900 (thorough 9000) generated tables per run, each pruned through one of three entry points with a tolerance triple from a small grid and compared with an exact O(n^2) reference (zero tolerance) or with the one-directional tolerance oracle, plus a constant-column metamorphic re-run. Not exhaustive: tables larger than 200 rows, more than 3 objectives / 3 reservations / 2 tile-shape columns, +inf/NaN cells, or tolerances off the grid are not explored.",
    "level_note": "Trusted: vf/ref/pareto.py (exact filter) and vf/ref/tolround.py (documented rounding with explicit uncertainty near boundaries; a kept row is only reported when it is dominated under every admissible rounding). With tolerance the check is one-directional as the statement is: over-pruning beyond the (1+t) / +a bound and ineffective pruning after rounding are caught, the exact kept set is not prescribed. Cells are float32-exact by construction.",
    "technique": "property-based testing (Hypothesis) against a reference model + metamorphic relation (constant column)",
}
