"""C06 — reported memory usage equals the execution-time peak occupancy."""

import math

from hypothesis import strategies as st

from vf.core import Violation, close, drive, hash32
from vf.gen import mapping as GM
from vf.gen import spec as G
from vf.ref import looptree_exec as RX

PROPERTY = "C06"
LEVEL = "exploration"
TOLERANCE = "rel 1e-5 (usage is reported as float32 fraction of size)"
RULE = (
    "Hypothesis-generated concrete mappings of 1-3 Einsums (single: matmul/matvec/elementwise/batched/outer/reduce; fused: "
    "chains of 2-3 matmuls, 2 elementwise ops, diamond) in reuse-normal form: Main on top, GLB(/Reg) storage nodes at "
    "arbitrary depths in the shared region and in each branch, shared loops over rank variables common to all Einsums above "
    "a Sequential split, intermediates backed in GLB (fused) or Main (unfused), per-memory bits-per-value overrides, finite "
    "sizes drawn around the true peak. Oracle: allocation log of the literal executor (tile live for its node's scope; a "
    "node directly above a split lives from the first to the last branch using the tensor) -> peak bits / size must equal "
    "Mappings.resource_usage() per memory, and peak > size <=> InvalidMappingError. Non-trivial: >=2 Einsums under a shared "
    "loop with an intermediate backed below Main, or a tensor whose lifetime does not span all branches, or a size within "
    "+-1 tile of the peak. Distinct = distinct descriptor."
)
ASSUMPTIONS = [
    "reuse-normal form: the loop directly below a non-backing storage node is irrelevant to its tensor (or the node sits directly above a split/compute); the model lowers other placements (DESIGN 4.2)",
    "lifetime rule from docs/source/guide/spec/mapping.rst: a storage node above a shared loop is live for the whole loop; one below the shared loops and above the split is live from first to last use",
    "temporal loops only; dense single-variable projections",
]


# ---------------------------------------------------------------------------
# generators
# ---------------------------------------------------------------------------

def relevant(proj_by_tensor, t, rv):
    return rv in proj_by_tensor[t]


@st.composite
def normal_form_slots(draw, loops, tensors, proj, lower_levels, end_slot_ok=True, p_skip=3):
    """storage placement where each node's next loop is irrelevant to its tensor"""
    nl = len(loops)
    placed = {}
    for li, level in enumerate(lower_levels):
        for t in tensors:
            if draw(st.integers(0, 9)) < p_skip:
                continue
            lo = 0
            for lj in range(li):
                lo = max(lo, placed.get((lower_levels[lj], t), 0))
            ok = [p for p in range(lo, nl + 1) if (p == nl and end_slot_ok) or (p < nl and loops[p]["rv"] not in proj[t])]
            if not ok:
                continue
            placed[(level, t)] = draw(st.sampled_from(ok))
    nodes = []
    for p in range(nl + 1):
        for level in lower_levels:
            for t in sorted(t for (lv, t), q in placed.items() if lv == level and q == p):
                nodes.append({"k": "storage", "level": level, "tensors": [t]})
        if p < nl:
            nodes.append(loops[p])
    return nodes


def mem_node(name, size, bpv=None):
    n = {"type": "Memory", "name": name, "size": size, "keep": "Nothing", "may_keep": "All",
         "read": [1, "inf"], "write": [1, "inf"], "leak": 0}
    if bpv:
        n["bits_per_value"] = bpv
    return n


@st.composite
def single_cases(draw):
    wl = draw(GM.single_einsum_workload())
    tens = wl["einsums"][0]["tensors"]
    tensors = [t for t, _, _ in tens]
    proj = {t: p for t, p, _ in tens}
    lower = ["GLB", "Reg"][: draw(st.sampled_from([1, 1, 2]))]
    loops = draw(GM.loop_nest(wl["bounds"]))
    body = draw(normal_form_slots(loops, tensors, proj, lower))
    tree = [{"k": "storage", "level": "Main", "tensors": tensors}] + body + [{"k": "compute", "einsum": "E", "level": "MAC"}]
    bits = draw(st.sampled_from([8, 8, 16]))
    nodes = [mem_node("Main", "inf")]
    for lv in lower:
        bpv = {draw(st.sampled_from(tensors)): draw(st.sampled_from([4, 16, 32]))} if draw(st.integers(0, 3)) == 0 else None
        nodes.append(mem_node(lv, "inf", bpv))
    nodes[0]["keep"] = "All"
    nodes.append({"type": "Compute", "name": "MAC", "compute": [1, 1], "leak": 0})
    spec = {"einsums": wl["einsums"], "bounds": wl["bounds"], "bits": {"All": bits}, "nodes": nodes, "shape": wl["shape"]}
    return {"kind": "single", "spec": spec, "tree": tree, "size_choice": {lv: draw(st.integers(0, 5)) for lv in lower}}


FUSED = ["chain2", "chain2", "chain3", "elementwise2", "diamond", "sharedw2", "sharedw2"]


@st.composite
def fused_cases(draw):
    shape = draw(st.sampled_from(FUSED))
    es, rvs = {"chain2": G.chain(2), "chain3": G.chain(3), "elementwise2": G.elementwise(2), "diamond": G.diamond(),
               "sharedw2": G.sharedw2()}[shape]
    bounds = {rv: draw(st.sampled_from([1, 2, 2, 3, 4])) for rv in rvs}
    all_t = []
    proj = {}
    outs, ins = set(), set()
    for e in es:
        for t, p, o in e["tensors"]:
            if t not in proj:
                all_t.append(t)
                proj[t] = p
            (outs if o else ins).add(t)
    inter = [t for t in all_t if t in outs and t in ins]
    # Intermediates are either all backed in GLB below every shared loop (fused) or all in Main with
    # no shared loop: the only shapes in which every branch's shared tensors sit under all the loops it
    # shares (evaluate_mapping cannot join other shapes and raises, which is not a usage claim).
    fuse = draw(st.integers(0, 3)) > 0
    fused_t = list(inter) if fuse else []
    main_t = [t for t in all_t if t not in fused_t]
    common = set(rvs)
    for e in es:
        common &= {v for _, p, _ in e["tensors"] for v in p}
    for t in fused_t:
        common &= set(proj[t])          # no recomputation: shared loops only over variables indexing the intermediates
    shared_loops = []
    cur = dict(bounds)
    order = [rv for rv in rvs if rv in common]
    nshared = draw(st.integers(0, len(order))) if fused_t else 0
    for rv in draw(st.permutations(order))[:nshared]:
        cands = [d for d in GM.divisors(bounds[rv]) if d < bounds[rv]]
        if not cands:
            continue
        tile = draw(st.sampled_from(cands))
        shared_loops.append({"k": "loop", "rv": rv, "tile": tile})
        cur[rv] = tile
    ns = len(shared_loops)
    shared_t = list(fused_t)
    for t in main_t:
        if draw(st.integers(0, 2)) == 0:
            shared_t.append(t)
    # branches first (their first loop decides where shared non-backing nodes may sit)
    branches = []
    for e in es:
        ervs = sorted({v for _, p, _ in e["tensors"] for v in p})
        loops = []
        chains = {}
        for rv in ervs:
            b = cur[rv]
            if b == 1 and bounds[rv] == 1:
                chains[rv] = [1] if draw(st.booleans()) else []
            elif b == 1:
                chains[rv] = []          # the shared loop already has tile 1
            else:
                ch = [1]
                c = 1
                for _ in range(draw(st.integers(0, 1))):
                    cands = [d for d in GM.divisors(b) if d > c and d % c == 0 and d < b]
                    if not cands:
                        break
                    c = draw(st.sampled_from(cands))
                    ch.append(c)
                chains[rv] = list(reversed(ch))
        seqs = [[(rv, t) for t in ch] for rv, ch in chains.items() if ch]
        while any(seqs):
            ne = [s for s in seqs if s]
            s = draw(st.sampled_from(ne)) if len(ne) > 1 else ne[0]
            loops.append({"k": "loop", "rv": s[0][0], "tile": s[0][1]})
            s.pop(0)
        et = [t for t, _, _ in e["tensors"] if t not in shared_t]
        body = draw(normal_form_slots(loops, et, proj, ["GLB"], p_skip=4))
        branches.append(body + [{"k": "compute", "einsum": e["name"], "level": "MAC"}])

    def last_slot_ok(t):
        for e, br in zip(es, branches):
            if t in [x for x, _, _ in e["tensors"]] and br[0]["k"] == "loop" and br[0]["rv"] in proj[t]:
                return False
        return True

    placed = {}
    for t in list(shared_t):
        if t in fused_t:
            placed[t] = ns
        else:
            ok = [p for p in range(ns) if shared_loops[p]["rv"] not in proj[t]] + ([ns] if last_slot_ok(t) else [])
            if not ok:
                shared_t.remove(t)       # stays in Main only; its branch nodes were not generated, fine
                continue
            placed[t] = draw(st.sampled_from(ok))
    shared_nodes = []
    for p in range(ns + 1):
        for t in [t for t in shared_t if placed[t] == p]:
            shared_nodes.append({"k": "storage", "level": "GLB", "tensors": [t]})
        if p < ns:
            shared_nodes.append(shared_loops[p])
    # optionally hold one non-intermediate tensor persistently in the GLB (top of the mapping), with several
    # workload instances: persistent reservations live throughout and scale with the instance count
    persistent_nodes = []
    n_instances = 1
    # reuse-normal form also for the persistent node: the first loop below it must not index the tensor
    def first_loop_ok(t):
        if ns:
            return shared_loops[0]["rv"] not in proj[t]
        return last_slot_ok(t)

    # only read-only tensors (weights, inputs): a persistent copy of an output in a non-backing memory is outside
    # the documented use of persistence ("must remain in backing storage for the full duration")
    def in_branch(t):
        return any(x["k"] == "storage" and x["level"] == "GLB" and t in x["tensors"] for br in branches for x in br)

    # (a tensor with a GLB node inside a branch is not eligible: removing that node would change the branch head and
    # with it the normal-form condition of the other nodes above the split)
    # (read-only tensors used by several Einsums are not eligible either: a non-backing copy shared by two Einsums above
    # the split, persistent or not, is counted once per Einsum by the model -- open finding, known_findings.json C06)
    multi_readers = [t for t in all_t if t not in outs and sum(1 for e in es for tt, _, o in e["tensors"] if tt == t and not o) >= 2]
    cand = [t for t in main_t if t not in shared_t and t not in multi_readers and t not in inter and t not in outs
            and first_loop_ok(t) and not in_branch(t)]
    if cand and draw(st.integers(0, 2)) == 0:
        pt = draw(st.sampled_from(cand))
        persistent_nodes = [{"k": "storage", "level": "GLB", "tensors": [pt], "persistent": True}]
        for br in branches:          # a tensor has at most one GLB node on a path
            br[:] = [x for x in br if not (x["k"] == "storage" and x["level"] == "GLB" and x["tensors"] == [pt])]
        n_instances = draw(st.sampled_from([1, 2, 3]))
    # excluded by construction (known finding, known_findings.json C06): a read-only tensor used by several Einsums held
    # NON-persistently in the GLB above the split is counted once per Einsum by the model
    multi_ro = {t for t in all_t if t not in outs and sum(1 for e in es for tt, _, o in e["tensors"] if tt == t and not o) >= 2}
    n_excl = 0
    for nd in shared_nodes:
        if nd.get("k") == "storage" and nd.get("level") == "GLB":
            keep = [t for t in nd["tensors"] if t not in multi_ro]
            n_excl += len(nd["tensors"]) - len(keep)
            nd["tensors"] = keep
    shared_nodes = [nd for nd in shared_nodes if nd.get("k") != "storage" or nd["tensors"]]
    tree = ([{"k": "storage", "level": "Main", "tensors": main_t}] + persistent_nodes + shared_nodes
            + [{"k": "seq", "branches": branches}])
    bits = draw(st.sampled_from([8, 16]))
    bpv = {draw(st.sampled_from(all_t)): draw(st.sampled_from([4, 32]))} if draw(st.integers(0, 3)) == 0 else None
    nodes = [mem_node("Main", "inf"), mem_node("GLB", "inf", bpv), {"type": "Compute", "name": "MAC", "compute": [1, 1], "leak": 0}]
    nodes[0]["keep"] = "~Intermediates" if fused_t else "All"
    if fused_t:
        nodes[1]["keep"] = "~Main"
    spec = {"einsums": es, "bounds": bounds, "bits": {"All": bits}, "nodes": nodes, "shape": shape, "n_instances": n_instances}
    return {"kind": "fused", "spec": spec, "tree": tree, "fused": fused_t, "n_shared_loops": len(shared_loops),
            "persistent": bool(persistent_nodes), "excluded_shared_ro": n_excl, "size_choice": {"GLB": draw(st.integers(0, 5))}}


@st.composite
def _branch(draw, e, cur, bounds, proj, skip_t):
    ervs = sorted({v for _, p, _ in e["tensors"] for v in p})
    chains = {}
    for rv in ervs:
        b = cur[rv]
        if b == 1 and bounds[rv] == 1:
            chains[rv] = [1] if draw(st.booleans()) else []
        elif b == 1:
            chains[rv] = []
        else:
            ch, c = [1], 1
            for _ in range(draw(st.integers(0, 1))):
                cands = [d for d in GM.divisors(b) if d > c and d % c == 0 and d < b]
                if not cands:
                    break
                c = draw(st.sampled_from(cands))
                ch.append(c)
            chains[rv] = list(reversed(ch))
    seqs = [[(rv, t) for t in ch] for rv, ch in chains.items() if ch]
    loops = []
    while any(seqs):
        ne = [s for s in seqs if s]
        s = draw(st.sampled_from(ne)) if len(ne) > 1 else ne[0]
        loops.append({"k": "loop", "rv": s[0][0], "tile": s[0][1]})
        s.pop(0)
    et = [t for t, _, _ in e["tensors"] if t not in skip_t]
    body = draw(normal_form_slots(loops, et, proj, ["GLB"], p_skip=5))
    return body + [{"k": "compute", "einsum": e["name"], "level": "MAC"}]


@st.composite
def nested_cases(draw):
    """chain of 3 matmuls where two neighbours share one more loop than the third:
    for m: [T_outer] split( for n_inner: [T_inner] split(Ea, Eb) , Ec )"""
    wlk = draw(st.sampled_from(["chain3", "chain3", "skip3"]))
    es, rvs = G.chain(3) if wlk == "chain3" else G.skip3()
    bounds = {rv: draw(st.sampled_from([1, 2, 2, 3, 4])) for rv in rvs}
    proj = {t: p for e in es for t, p, _ in e["tensors"]}
    # skip3 (T1 also read by the last Einsum) only with the (E1,E2) group: T1 outer, T2 inner
    group = draw(st.sampled_from(["01", "12"])) if wlk == "chain3" else "12"
    t_inner, t_outer, inner_rv = ("T1", "T2", "n1") if group == "01" else ("T2", "T1", "n2")
    main_t = ["T0", "W0", "W1", "W2", "T3"] if wlk == "chain3" else ["T0", "W0", "W1", "T3"]
    cur = dict(bounds)

    def maybe_loop(rv, force=False):
        cands = [d for d in GM.divisors(cur[rv]) if d < cur[rv]]
        if cands and (force or draw(st.booleans())):
            tile = draw(st.sampled_from(cands))
            cur[rv] = tile
            return [{"k": "loop", "rv": rv, "tile": tile}]
        return []

    outer = maybe_loop("m")
    inner = maybe_loop(inner_rv, force=True)
    if draw(st.booleans()):
        inner = inner + maybe_loop("m") if draw(st.booleans()) else maybe_loop("m") + inner
    n_inner_loops = len(inner)
    pair = [es[0], es[1]] if group == "01" else [es[1], es[2]]
    lone = es[2] if group == "01" else es[0]
    cur_pair = dict(cur)
    cur_lone = dict(cur)
    for lp in inner:                      # the lone Einsum is not under the inner loops
        cur_lone[lp["rv"]] = bounds[lp["rv"]] if not any(o["rv"] == lp["rv"] for o in outer) else [o for o in outer if o["rv"] == lp["rv"]][0]["tile"]
    br_pair = [draw(_branch(e, cur_pair, bounds, proj, {"T1", "T2"})) for e in pair]
    br_lone = draw(_branch(lone, cur_lone, bounds, proj, {"T1", "T2"}))
    inner_group = inner + [{"k": "storage", "level": "GLB", "tensors": [t_inner]}, {"k": "seq", "branches": br_pair}]
    branches = [inner_group, br_lone] if group == "01" else [br_lone, inner_group]
    tree = ([{"k": "storage", "level": "Main", "tensors": main_t}] + outer
            + [{"k": "storage", "level": "GLB", "tensors": [t_outer]}, {"k": "seq", "branches": branches}])
    bits = draw(st.sampled_from([8, 16]))
    nodes = [mem_node("Main", "inf"), mem_node("GLB", "inf"), {"type": "Compute", "name": "MAC", "compute": [1, 1], "leak": 0}]
    nodes[0]["keep"] = "~Intermediates"
    nodes[1]["keep"] = "~Main"
    spec = {"einsums": es, "bounds": bounds, "bits": {"All": bits}, "nodes": nodes, "shape": wlk + "-nested" + group}
    return {"kind": "fused", "spec": spec, "tree": tree, "fused": ["T1", "T2"], "n_shared_loops": len(outer) + n_inner_loops,
            "size_choice": {"GLB": draw(st.integers(0, 5))}}


# ---------------------------------------------------------------------------
# oracle
# ---------------------------------------------------------------------------

def ref_peaks(desc):
    einsums, bounds, comps, wl_bits = GM.to_ref(desc)
    ex = RX.Executor(einsums, bounds, comps, wl_bits, n_instances=desc["spec"].get("n_instances", 1))
    res = ex.run(desc["tree"])
    return dict(res.peak_bits), res


def sized(desc, peaks):
    """pick finite sizes around the true peak: choice 0 inf, 1 exactly peak, 2 peak-1 bit... (too small), 3 2x, 4 peak+1, 5 peak/2"""
    import copy

    d = copy.deepcopy(desc)
    for n in d["spec"]["nodes"]:
        ch = desc["size_choice"].get(n["name"])
        if ch is None:
            continue
        pk = peaks.get(n["name"], 0)
        if ch == 0 or pk == 0:
            n["size"] = "inf"
        elif ch == 1:
            n["size"] = pk
        elif ch == 2:
            n["size"] = pk - 1
        elif ch == 3:
            n["size"] = pk * 2
        elif ch == 4:
            n["size"] = pk + 1
        else:
            n["size"] = max(1, pk // 2)
    return d


def evaluate(desc):
    import accelforge as af
    from accelforge.model.main import evaluate_mapping

    af.set_n_parallel_jobs(1)
    spec = G.build_spec(desc["spec"], apply_mapper=False)
    spec.mapping = GM.to_af_mapping(desc["tree"])
    r = evaluate_mapping(spec)
    return r.resource_usage()


KNOWN_SHARED_RO = "shared-readonly-copy-above-split"


def shared_readonly_above_split(desc):
    """tensors read (never written) by >= 2 Einsums that have a (non-backing) GLB node above the sequential split:
    the model evaluates such a mapping Einsum by Einsum and counts that one tile once per Einsum (known finding)"""
    if desc.get("kind") != "fused":
        return []
    readers, written = {}, set()
    for e in desc["spec"]["einsums"]:
        for t, _, o in e["tensors"]:
            if o:
                written.add(t)
            else:
                readers[t] = readers.get(t, 0) + 1
    multi = {t for t, n in readers.items() if n >= 2 and t not in written}
    out = []
    for n in desc["tree"]:
        if isinstance(n, dict) and n.get("k") == "seq":
            break
        if n.get("k") == "storage" and n.get("level") == "GLB":
            out += [t for t in n["tensors"] if t in multi]
    return out


def check(desc, col):
    ro = shared_readonly_above_split(desc)
    if not ro:
        return _check(desc, col)
    try:
        return _check(desc, col)
    except Violation as v:
        # only reachable from the stored replay of the known finding: the generators exclude this class by construction
        raise Violation(v.message + f"\n(read-only tensor(s) {ro} shared by several Einsums are held non-persistently above the split)",
                        key=f"{KNOWN_SHARED_RO}:{v.key}")


def _check(desc, col):
    from accelforge.model.main import InvalidMappingError

    peaks, res = ref_peaks(desc)
    d = sized(desc, peaks)
    sizes = {n["name"]: G.num(n["size"]) for n in d["spec"]["nodes"] if n["type"] == "Memory"}
    over = [m for m, pk in peaks.items() if pk > sizes.get(m, math.inf)]
    tight = any(not math.isinf(sizes[m]) and abs(sizes[m] - peaks.get(m, 0)) <= 1 for m in sizes)
    if desc["kind"] == "fused":
        # a tensor whose lifetime does not span all branches: some alloc happens after a free in GLB
        log = [(a, t) for a, lv, t, b in res.alloc_log if lv == "GLB"]
        partial = False
        seen_free = False
        for a, t in log:
            if a == "free":
                seen_free = True
            elif seen_free:
                partial = True
        nontrivial = bool(desc["fused"] and desc["n_shared_loops"]) or partial or tight or bool(desc.get("persistent"))
        labels = [f"fused:{desc['spec']['shape']}", "intermediate_in_glb" if desc["fused"] else "unfused",
                  ("persistent:n_instances=%d" % desc["spec"].get("n_instances", 1)) if desc.get("persistent") else "no_persistent",
                  f"shared_loops:{desc['n_shared_loops']}", "partial_lifetime" if partial else "full_lifetime"]
        if desc.get("excluded_shared_ro"):
            labels.append("excluded_by_construction:shared-readonly-copy-above-split")
    else:
        nontrivial = tight or len([n for n in desc["tree"] if n["k"] == "storage"]) >= 3
        labels = ["single", f"levels:{len(sizes)}"]
    labels += ["over_capacity" if over else ("tight" if tight else "roomy")]
    col.case(desc, nontrivial, labels, sample={"tree": _show(desc["tree"]), "bounds": desc["spec"]["bounds"],
                                              "peak_bits": peaks, "sizes": {k: G.enc(v) for k, v in sizes.items()}})
    try:
        usage = evaluate(d)
    except InvalidMappingError as e:
        if over:
            return
        raise Violation(f"model rejects the mapping ({str(e)[:200]}) but executed peak {peaks} fits sizes {sizes}",
                        key="rejects-valid")
    except ValueError as e:
        # a fused mapping that fits nowhere is rejected by the joiner with this message
        if "No mappings found" in str(e):
            if over:
                return
            raise Violation(f"model rejects the mapping ({str(e)[:200]}) but executed peak {peaks} fits sizes {sizes}",
                            key="rejects-valid")
        import traceback
        raise Violation(f"evaluate_mapping raised ValueError: {str(e)[:300]}\n{traceback.format_exc(limit=8)}", key="crash:ValueError")
    except Exception as e:  # noqa: BLE001
        import traceback
        raise Violation(f"evaluate_mapping raised {type(e).__name__}: {str(e)[:300]}\n{traceback.format_exc(limit=8)}",
                        key=f"crash:{type(e).__name__}")
    if over:
        raise Violation(f"model accepts the mapping (usage {usage}) but executed peak {peaks} exceeds sizes {sizes} in {over}",
                        key="accepts-overflow")
    for m, size in sizes.items():
        want = 0.0 if math.isinf(size) else peaks.get(m, 0) / size
        have = float(usage.get(m, 0.0))
        if not close(have, want, rel=1e-5, abs_=1e-9):
            raise Violation(f"usage of {m}: model {have} vs executed peak {peaks.get(m, 0)} bits / size {size} = {want}",
                            key=f"usage:{desc['kind']}")


def _show(nodes):
    out = []
    for n in nodes:
        if n["k"] == "loop":
            out.append(f"for {n['rv']} tile {n['tile']}")
        elif n["k"] in ("storage", "toll"):
            out.append(f"{n['level']}[{','.join(n['tensors'])}]")
        elif n["k"] == "seq":
            out.append({"seq": [_show(b) for b in n["branches"]]})
        else:
            out.append(f"compute {n['einsum']}")
    return out


N = {"quick": (240, 240), "thorough": (3200, 3200)}
NSHARDS = 16


def shards(tier, seed):
    a, b = N[tier]
    return [{"k": k, "n_single": a // NSHARDS, "n_fused": b // NSHARDS, "seed": seed} for k in range(NSHARDS)]


def run_shard(shard, col):
    drive(single_cases(), check, n=shard["n_single"], seed=hash32(shard["seed"], "C06s", shard["k"]), col=col)
    drive(fused_cases(), check, n=shard["n_fused"], seed=hash32(shard["seed"], "C06f", shard["k"]), col=col)
    drive(nested_cases(), check, n=max(1, shard["n_fused"] // 2), seed=hash32(shard["seed"], "C06n", shard["k"]), col=col)


def replay(desc, col):
    check(desc, col)

REGISTER = True
QUICK_BUDGET_S = 400
MUTANTS = [
    {"what": "run_model: running_total = instead of += (reservations not cumulative)", "caught": True},
    {"what": "_adjust_reservations_one_resource: level >= above_loop_index (tensor counted twice at its own level)", "caught": True},
    {"what": "free_to_loop_index: left reservations at loop_index+1 not folded into the target", "caught": False,
     "note": "equivalent for the observable: resource_usage() is the max over all reservation columns, so leaving the column unmerged does not change it"},
    {"what": "shift_bottom_reservation_left disabled", "caught": True, "how": "accelforge assertion fires (crash)"},
]
MANIFEST = {
    "level_text": "Differential testing of the usage reported by evaluate_mapping (which joins the per-Einsum pmappings with the mapper's reservation logic) against the peak of a literal allocation log on generated single- and multi-Einsum LoopTrees (flat and nested splits), with memory sizes drawn at, just below and just above the true peak so that the accept/reject decision is tested in both directions. No counterexample in N generated trees; not a proof.",
    "level_note": "Trusted: vf/ref/looptree_exec.py allocation log and the lifetime rule quoted from docs/source/guide/spec/mapping.rst. Domain: reuse-normal-form placements; intermediates all fused below every shared loop or all unfused; persistent tensors and n_instances>1 not generated yet.",
    "technique": "property-based differential testing against a reference executor (Hypothesis)",
}
