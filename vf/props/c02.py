"""C02 — the returned Pareto front is complete and contains no dominated mapping."""

from hypothesis import strategies as st

from vf.core import Violation, close, drive, hash32
from vf.gen import spec as G
from vf.gen import universe as U

PROPERTY = "C02"
LEVEL = "exploration"
TOLERANCE = "strictly better needs a relative margin > 1e-5; equal means all objectives within 1e-6"
RULE = (
    "Tiny single-Einsum specs as in C01 with metric sets ENERGY|LATENCY and ENERGY|LATENCY|RESOURCE_USAGE at zero tolerance; "
    "the documented mapspace is enumerated completely and evaluated with evaluate_mapping. (a) completeness: every valid "
    "universe member is weakly dominated by some returned row on the requested objectives (energy, latency, and per-memory "
    "peak usage when RESOURCE_USAGE is requested); (b) no returned row strictly dominates another; (c) no two returned rows "
    "have identical objective vectors. A second, front-only family checks (b) and (c) on specs too large to enumerate "
    "(1-2 Einsums, 2-3 memory levels, ENERGY|LATENCY|RESOURCE_USAGE) whose energies are scaled by 1..2^20 and whose "
    "capacities are powers of two half the time, so that the float32 sort keys of the Pareto filter tie between rows "
    "differing only in a usage fraction (non-trivial there: >= 3 returned rows). Non-trivial: the exact Pareto front of the universe has >= 3 points. Distinct = "
    "distinct spec descriptor."
)
ASSUMPTIONS = [
    "universe rules and evaluator as in C01 (single-Einsum specs)",
    "usage objectives = Mappings.resource_usage() of each memory with a finite size",
    "memory capacities are never an exact fit (known finding C08 exact-fit float32)",
]
M = 1e-5


def vec(energy, latency, usage, mems, with_usage):
    v = [energy, latency]
    if with_usage:
        v += [usage.get(m, 0.0) for m in mems]
    return v


def weakly_dominates(a, b):
    return all(x <= y * (1 + M) + 1e-9 for x, y in zip(a, b))


def strictly_dominates(a, b):
    return all(x <= y * (1 + 1e-7) + 1e-12 for x, y in zip(a, b)) and any(x < y * (1 - M) - 1e-9 for x, y in zip(a, b))


def check(desc, col):
    if desc.get("family") == "front":
        return check_front(desc, col)
    with_usage = "RESOURCE_USAGE" in desc["mapper"]["metrics"]
    mems = [n["name"] for n in desc["nodes"] if n["type"] == "Memory" and n["size"] != "inf"]
    spec = G.build_spec(desc)
    uni, n_total, n_invalid = U.evaluate_universe(desc, col=col)
    if col.over_budget():
        col.case(desc, False, ["budget:universe-incomplete"])
        return
    uvecs = [vec(m["energy"], m["latency"], m["usage"], mems, with_usage) for m in uni]
    # exact front size of the universe (distinct vectors)
    dist = sorted({tuple(round(x, 9) for x in v) for v in uvecs})
    front = [v for v in dist if not any(strictly_dominates(w, v) for w in dist if w != v)]
    nontrivial = len(front) >= 3
    col.case(desc, nontrivial, [f"metrics:{desc['mapper']['metrics']}", f"front:{min(len(front), 6)}",
                                "capacity_binding" if n_invalid else "capacity_free", "feasible" if uni else "infeasible"],
             sample={"bounds": desc["bounds"], "levels": desc["levels"], "metrics": desc["mapper"]["metrics"],
                     "universe": n_total, "invalid": n_invalid, "front_size": len(front), "front": front[:6]})
    try:
        m = G.run_mapper(spec)
    except G.Infeasible as e:
        if uni:
            raise Violation(f"mapper reports no mapping ({e}) but the universe has {len(uni)} valid members", key="mapper-infeasible")
        return
    except Exception as e:  # noqa: BLE001
        import traceback
        raise Violation(f"map_workload_to_arch raised {type(e).__name__}: {str(e)[:300]}\n{traceback.format_exc(limit=6)}",
                        key=f"mapper-crash:{type(e).__name__}")
    df = m.data
    usage = m.resource_usage(list_if_one_mapping=True)
    rows = []
    for i in range(len(df)):
        u = {k: float(v[i]) for k, v in usage.items()}
        rows.append(vec(float(df["Total<SEP>energy"].iloc[i]), float(df["Total<SEP>latency"].iloc[i]), u, mems, with_usage))
    col.label(f"returned_rows:{min(len(rows), 6)}")
    for i, a in enumerate(rows):
        for j, b in enumerate(rows):
            if i == j:
                continue
            if strictly_dominates(a, b):
                raise Violation(f"returned row {i} {a} strictly dominates returned row {j} {b}", key="returned-dominated")
            if i < j and all(close(x, y, rel=1e-6, abs_=1e-9) for x, y in zip(a, b)):
                raise Violation(f"returned rows {i} and {j} have identical objective vectors {a}", key="returned-duplicate")
    for mbr, v in zip(uni, uvecs):
        if not any(weakly_dominates(r, v) for r in rows):
            raise Violation(f"valid mapping {U.show(mbr['tree'])} with objectives {v} is not weakly dominated by any of the "
                            f"{len(rows)} returned rows (first rows: {rows[:4]})", key="front-incomplete")


# ---------------------------------------------------------------------------------------------------------
# front-only family: clauses (b) and (c) on specs too large to enumerate, with energies scaled up so that the
# float32 sort keys of the Pareto filter tie between rows that differ only in a usage fraction
# ---------------------------------------------------------------------------------------------------------

@st.composite
def front_cases(draw):
    sp = draw(G.specs(shapes=("matmul", "matmul", "chain2", "matvec", "elementwise2"), levels=(2, 3, 3),
                      metrics=("ENERGY|LATENCY|RESOURCE_USAGE",), finite_tp=True,
                      bound_pool=[2, 3, 4, 4, 4, 6, 8], max_ops=600))
    scale = draw(st.sampled_from([1, 128, 4096, 2 ** 16, 2 ** 20]))
    pow2 = draw(st.booleans())
    for n in sp["nodes"]:
        for act in ("read", "write", "compute"):
            if act in n:
                n[act] = [G.num(n[act][0]) * scale, n[act][1]]
        if pow2 and n["type"] == "Memory" and n["size"] != "inf":
            # a power-of-two capacity: usage fractions are exact binary fractions, so equal energies and latencies with
            # different usages give exactly tied float32 sort keys once the energies are large
            n["size"] = 2 ** max(3, int(G.num(n["size"])).bit_length())
    sp["family"] = "front"
    sp["scale"] = scale
    return sp


def check_front(desc, col):
    mems = [n["name"] for n in desc["nodes"] if n["type"] == "Memory" and n["size"] != "inf"]
    try:
        m = G.run_mapper(G.build_spec(desc))
    except G.Infeasible:
        col.case(desc, False, ["family:front", "infeasible"])
        return
    except Exception as e:  # noqa: BLE001
        col.case(desc, False, ["family:front", "crash"])
        raise Violation(f"map_workload_to_arch raised {type(e).__name__}: {str(e)[:300]}", key=f"mapper-crash:{type(e).__name__}")
    df = m.data
    usage = m.resource_usage(list_if_one_mapping=True)
    rows = []
    for i in range(len(df)):
        u = {k: float(v[i]) for k, v in usage.items()}
        rows.append(vec(float(df["Total<SEP>energy"].iloc[i]), float(df["Total<SEP>latency"].iloc[i]), u, mems, True))
    emax = max(r[0] for r in rows)
    col.case(desc, len(rows) >= 3, ["family:front", f"returned_rows:{min(len(rows), 6)}", f"scale:{desc['scale']}",
                                    "energy>=2^22" if emax >= 2 ** 22 else "energy<2^22", f"shape:{desc['shape']}",
                                    f"finite_mems:{len(mems)}"],
             sample={"family": "front", "bounds": desc["bounds"], "scale": desc["scale"], "rows": rows[:5], "n_rows": len(rows)})
    for i, a in enumerate(rows):
        for j, b in enumerate(rows):
            if i == j:
                continue
            if strictly_dominates(a, b):
                raise Violation(f"returned row {i} {a} strictly dominates returned row {j} {b}", key="returned-dominated")
            if i < j and all(close(x, y, rel=1e-6, abs_=1e-9) for x, y in zip(a, b)):
                raise Violation(f"returned rows {i} and {j} have identical objective vectors {a}", key="returned-duplicate")


N = {"quick": 32, "thorough": 256}
N_FRONT = {"quick": 96, "thorough": 1600}
NSHARDS = 16
QUICK_BUDGET_S = 500
THOROUGH_BUDGET_S = 3000


def shards(tier, seed):
    return [{"k": k, "n": max(1, N[tier] // NSHARDS), "seed": seed, "tier": tier} for k in range(NSHARDS)]


def run_shard(shard, col):
    mu = 1500 if shard["tier"] == "quick" else 6000
    drive(U.tiny_specs(metrics=("ENERGY|LATENCY", "ENERGY|LATENCY|RESOURCE_USAGE", "ENERGY|LATENCY|RESOURCE_USAGE"),
                       max_universe=mu, conflict=True), check,
          n=shard["n"], seed=hash32(shard["seed"], "C02", shard["k"]), col=col, shrink=False)
    drive(front_cases(), check, n=max(1, N_FRONT[shard["tier"]] // NSHARDS), seed=hash32(shard["seed"], "C02front", shard["k"]),
          col=col, shrink=False)


def replay(desc, col):
    check(desc, col)

REGISTER = True
MUTANTS = []
MANIFEST = {
    "level_text": "For generated tiny single-Einsum specs with metric sets ENERGY|LATENCY(|RESOURCE_USAGE) the documented mapspace is enumerated completely and evaluated; every valid member must be weakly dominated by a returned row, no returned row may strictly dominate another, and no two returned rows may coincide. Complete inside each enumerated universe; the spec family is sampled. A front-only family checks the last two clauses on larger specs with energies scaled up to 2^20 (float32 sort-key ties). Not a proof.",
    "level_note": "Trusted: universe rules and evaluator as in C01. Single-Einsum specs only; capacities never an exact fit (open finding C08). Dominance uses a 1e-5 relative margin because the mapper reports float32 values.",
    "technique": "property-based testing against an exhaustive brute-force reference (mapspace enumeration + O(n^2) dominance)",
}
