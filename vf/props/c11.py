"""C11 — the Pareto filter keeps exactly the non-dominated rows."""

from hypothesis import strategies as st

from vf.core import Violation, drive, must
from vf.ref.pareto import ref_pareto_mask, expand

PROPERTY = "C11"
LEVEL = "exploration"
RULE = (
    "Hypothesis-generated matrices (1..300 rows x 1..8 cols; dtype float32/float64/int64; goals over "
    "min/max/diff/min_per_prime_factor/max_per_prime_factor) built from collision-prone value pools "
    "(few distinct values, mixed magnitudes 1e-3..5e8 that tie in float32 sums, +inf, constants, duplicated "
    "rows, anti-diagonal planes with equal sums); fast_pareto_mask and makepareto_numpy compared by index "
    "set with an O(n^2) reference. Non-trivial: >=3 varying optimisation columns in some group (general "
    "SFS/BNL path), reference drops >=1 row and keeps >=2. Distinct = distinct (dtype, goals, matrix)."
)
ASSUMPTIONS = [
    "float64/int64 inputs hold float32-exact values (the filter computes in float32 by design)",
    "no NaN and no -inf entries; +inf only in min / diff columns (a +inf in a max column is outside '+inf entries')",
    "prime-factor goals only on positive integer columns",
]
GOALS = ["min", "max", "diff", "min_per_prime_factor", "max_per_prime_factor"]
INF = float("inf")
POOLS = {
    "small": [0.0, 1.0, 2.0, 3.0],
    "ten": [float(i) for i in range(10)],
    "mixed": [0.0009765625, 1.0, 2.0, 5.0, 1e8, 5e8],   # all float32-exact
    "inf": [1.0, 2.0, 5.0, INF],
    "mixedinf": [1.0, 1e8, 5e8, INF, 0.5],
    "const": [7.0],
    "prime": [1.0, 2.0, 3.0, 4.0, 6.0, 8.0, 9.0, 12.0, 16.0, 18.0, 24.0, 36.0],
    "two": [1.0, 2.0],
}


@st.composite
def matrices(draw):
    ncols = draw(st.integers(1, 8))
    dtype = draw(st.sampled_from(["float32", "float64", "int64"]))
    goals, pools = [], []
    for _ in range(ncols):
        g = draw(st.sampled_from(["min", "min", "min", "max", "diff", "min_per_prime_factor", "max_per_prime_factor"]))
        if g.endswith("prime_factor"):
            p = "prime"
        elif dtype == "int64":
            p = draw(st.sampled_from(["small", "ten", "const", "prime", "two"]))
        elif g == "max":
            p = draw(st.sampled_from(["small", "ten", "mixed", "const", "two"]))
        elif g == "diff":
            p = draw(st.sampled_from(["small", "two", "const", "inf", "mixed"]))
        else:
            p = draw(st.sampled_from(["small", "ten", "mixed", "inf", "mixedinf", "const", "two"]))
        goals.append(g)
        pools.append(p)
    shape = draw(st.sampled_from(["random", "random", "plane", "dups"]))
    n = draw(st.integers(1, 300) if shape != "plane" else st.integers(3, 120))
    idx = draw(st.lists(st.lists(st.integers(0, 11), min_size=ncols, max_size=ncols), min_size=n, max_size=n))
    rows = [[POOLS[pools[c]][r[c] % len(POOLS[pools[c]])] for c in range(ncols)] for r in idx]
    if shape == "plane":
        # rows whose 'ten' min-columns sum to a constant: all tie in the sort key
        tcols = [c for c in range(ncols) if pools[c] == "ten" and goals[c] == "min"]
        if len(tcols) >= 2:
            for r in rows:
                s = sum(r[c] for c in tcols[:-1])
                r[tcols[-1]] = float((9 * len(tcols) - s) % 10)
    if shape == "dups" and n >= 2:
        pairs = draw(st.lists(st.tuples(st.integers(0, n - 1), st.integers(0, n - 1)), max_size=10))
        for a, b in pairs:
            rows[b] = list(rows[a])
    return {"dtype": dtype, "goals": goals, "pools": pools, "rows": rows}


def _enc(rows):
    return [["inf" if v == INF else v for v in r] for r in rows]


def _dec(rows):
    return [[INF if v == "inf" else float(v) for v in r] for r in rows]


def check(desc, col):
    import numpy as np
    from accelforge.mapper.FFM._pareto_df.fast_pareto import fast_pareto_mask
    from accelforge.mapper.FFM._pareto_df.pareto import makepareto_numpy

    rows = _dec(desc["rows"])
    goals = desc["goals"]
    dtype = desc["dtype"]
    if dtype == "int64":
        arr = np.array([[int(v) for v in r] for r in rows], dtype=np.int64).reshape(len(rows), len(goals))
    else:
        arr = np.array(rows, dtype=dtype).reshape(len(rows), len(goals))
    ref = ref_pareto_mask(rows, goals)
    # classification
    opt, grp = expand(rows, goals)
    by_group = {}
    for o, g in zip(opt, grp):
        by_group.setdefault(g, []).append(o)
    max_var = 0
    for g, os_ in by_group.items():
        if os_ and len(os_) > 1:
            nv = sum(1 for k in range(len(os_[0])) if len({o[k] for o in os_}) > 1)
            max_var = max(max_var, nv)
    path = "general" if max_var >= 3 else f"{max_var}-varying"
    kept, dropped = sum(ref), len(ref) - sum(ref)
    nontrivial = max_var >= 3 and dropped >= 1 and kept >= 2
    has_inf = any(v == INF for r in rows for v in r)
    labels = [f"path:{path}", f"dtype:{dtype}", "has_inf" if has_inf else "finite",
              "groups:" + ("many" if len(by_group) > 1 else "one"),
              "front>16" if kept > 16 else "front<=16"]
    col.case([dtype, goals, desc["rows"]], nontrivial, labels,
             sample={"dtype": dtype, "goals": goals, "n_rows": len(rows), "first_rows": desc["rows"][:5],
                     "ref_kept": kept} )
    for name, fn in (("fast_pareto_mask", lambda: fast_pareto_mask(arr.copy(), list(goals))),
                     ("makepareto_numpy", lambda: makepareto_numpy(arr.copy(), list(goals)))):
        got = [bool(x) for x in must(fn, what=name)]
        if got != ref:
            wrong_drop = [i for i in range(len(ref)) if ref[i] and not got[i]]
            wrong_keep = [i for i in range(len(ref)) if got[i] and not ref[i]]
            kind = "drops-nondominated" if wrong_drop else "keeps-dominated"
            raise Violation(
                f"{name} mask differs from reference ({kind}): wrongly dropped rows {wrong_drop[:5]}, wrongly kept rows "
                f"{wrong_keep[:5]}; goals={goals} dtype={dtype} n={len(rows)} path={path} has_inf={has_inf}",
                key=f"{kind}:{path}:{'inf' if has_inf else 'finite'}")


def _check_enc(desc, col):
    d = dict(desc)
    d["rows"] = _enc(desc["rows"]) if any(isinstance(v, float) and v == INF for r in desc["rows"] for v in r) else desc["rows"]
    check(d, col)


N = {"quick": 2400, "thorough": 32000}
NSHARDS = 16


def shards(tier, seed):
    return [{"k": k, "n": N[tier] // NSHARDS, "seed": seed, "shrink": True} for k in range(NSHARDS)]


def run_shard(shard, col):
    from vf.core import hash32
    strat = matrices().map(lambda d: {**d, "rows": _enc(d["rows"])})
    drive(strat, check, n=shard["n"], seed=hash32(shard["seed"], "C11", shard["k"]), col=col, shrink=shard["shrink"])


def replay(desc, col):
    check(desc, col)

REGISTER = True
MUTANTS = [
    {"what": "unfixed tree (commit d9e4e78): 2-D sentinel, sum ties, in-place negate", "caught": True},
]
MANIFEST = {
    "level_text": "Differential testing of fast_pareto_mask and makepareto_numpy against an exact O(n^2) reference on generated matrices built to collide (ties, duplicated rows, equal column sums, float32 rounding ties, +inf, constant columns, many/one groups, all five goal kinds): kept index sets must be identical. No counterexample in N generated matrices; not a proof.",
    "level_note": "Trusted: vf/ref/pareto.py. float64/int64 inputs hold float32-exact values; no NaN, no -inf, +inf only in min/diff columns; prime goals on positive integers.",
    "technique": "property-based differential testing against a reference model (Hypothesis)",
}
