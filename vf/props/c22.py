"""C22 -- set expressions follow set algebra over each Einsum's tensors.

Random cascades of 1-4 Einsums (vf/gen/workloads.py), random expression trees (depth <= 4)
over the documented named sets, tensor names (own and foreign), and rename names, combined
with & | - ^ ~.  Observed at
  * Einsum-local and top-level ``default`` rename sources (``einsum.renames[x].source``),
  * a Memory's ``tensors.keep / may_keep / no_refetch_from_above`` under
    ``Spec._spec_eval_expressions(einsum_name=e)`` for every Einsum e,
  * dictionaries keyed by set expressions: a Memory's ``bits_per_value`` /
    ``values_per_action`` (evaluated per Einsum) and the workload's ``bits_per_value``,
    with and without an ``Other`` key, with overlapping keys.
Oracle: vf/ref/setalg.py (python frozensets, complement inside the Einsum's tensors).
"""

from hypothesis import strategies as st

from vf.core import Violation, drive, must, hash32
from vf.gen.workloads import workloads, einsum_dicts
from vf.ref import setalg as R

PROPERTY = "C22"
LEVEL = "exploration"
RULE = (
    "Hypothesis: cascade of 1-4 Einsums with random input/output/persistent structure; 0-2 top-level default "
    "renames, 0-2 Einsum-local renames per Einsum (may use earlier ones), 2-3 architecture-level expressions, "
    "optional Memory dictionary and workload bits_per_value dictionary keyed by set expressions (with/without "
    "Other, overlapping or not); trees of depth<=4 over All/Tensors/Inputs/Outputs/Intermediates/Shared/"
    "Persistent/Nothing, tensor names (own+foreign), rename names with & | - ^ ~, rendered fully or minimally "
    "parenthesised. Every evaluated set compared with a frozenset reference for every Einsum. Non-trivial: some "
    "observed expression of depth>=2 contains ~ or ^ and evaluates to a non-empty, non-full set in some Einsum. "
    "Distinct = distinct descriptor."
)
ASSUMPTIONS = [
    "rename sources reference only names defined earlier in the same table (the code evaluates a table in list order; "
    "the docs do not promise more)",
    "a tensor is produced by at most one Einsum and never read and written by the same Einsum",
    "Toll.direction dictionaries are not covered: _eval_direction does not implement the Other key (deviation from DESIGN.md)",
    "when workload.persistent_tensors is used, only architecture-level expressions mention Persistent (rename sources "
    "and persistent_tensors would otherwise be mutually recursive)",
    "workload-level bits_per_value: besides overlap, an uncovered tensor or values that differ across Einsums for a shared "
    "tensor are documented errors; for those the check only requires that an error is raised",
]

KNOWN_FOREIGN = "foreign-tensor-undefined-in-rename-source"
KNOWN_PERSISTENT = "persistent-set-ignores-workload-persistent_tensors"

BIN = ["and", "or", "sub", "xor"]
VALUES = [1, 2, 4, 8, 16, 32]


@st.composite
def tree(draw, leaves, depth):
    if depth <= 0 or draw(st.integers(0, 4)) == 0:
        return ["name", draw(st.sampled_from(leaves))]
    op = draw(st.sampled_from(["not", "not", "xor", "xor", "and", "or", "sub"]))
    if op == "not":
        return ["not", draw(tree(leaves, depth - 1))]
    return [op, draw(tree(leaves, depth - 1)), draw(tree(leaves, depth - 1))]


@st.composite
def key_items(draw, leaves):
    """Keys of a dictionary keyed by set expressions: [[tree, value], ...] (unique strings)."""
    items = []
    style = draw(st.sampled_from(["random", "disjoint", "disjoint", "overlap"]))
    a = draw(tree(leaves, 2))
    if style == "random":
        ks = [a] + [draw(tree(leaves, 2)) for _ in range(draw(st.integers(0, 2)))]
    elif style == "disjoint":
        b = draw(tree(leaves, 1))
        ks = [a, ["sub", b, a]]
        if draw(st.booleans()):
            c = draw(tree(leaves, 1))
            ks.append(["sub", ["sub", c, a], b])
    else:
        b = draw(tree(leaves, 1))
        ks = [a, ["or", b, a]]
    other = draw(st.sampled_from(["plain", "plain", "plain", "none", "expr"]))
    if other == "plain":
        ks.insert(draw(st.integers(0, len(ks))), ["name", "Other"])
    elif other == "expr":
        x = draw(tree(leaves, 1))
        ks.insert(draw(st.integers(0, len(ks))), [draw(st.sampled_from(["and", "sub"])), ["name", "Other"], x])
    seen = set()
    for k in ks:
        s = R.render(k, "min")
        if s in seen:
            continue
        seen.add(s)
        items.append([k, draw(st.sampled_from(VALUES))])
    return items


@st.composite
def cases(draw):
    wl = draw(workloads(1, 4))
    names = [e["name"] for e in wl["einsums"]]
    all_t = R.all_tensor_names(wl)
    cls = draw(st.sampled_from(["plain"] * 16 + ["pt"] * 3 + ["foreign"]))
    if cls == "foreign" and len(names) < 2:
        cls = "plain"
    base_r = [b for b in R.BASE_SETS if not (cls == "pt" and b == "Persistent")]
    default = []
    for i in range(draw(st.integers(0, 2))):
        default.append([f"dflt{i}", draw(tree(base_r + [d[0] for d in default], draw(st.integers(1, 4))))])
    local = {}
    for e in wl["einsums"]:
        if draw(st.integers(0, 2)) == 0:
            continue
        lst = []
        for i in range(draw(st.integers(1, 2))):
            leaves = base_r + R.tensors_of(e) + [x[0] for x in lst]
            lst.append([f"loc{i}", draw(tree(leaves, draw(st.integers(1, 4))))])
        local[e["name"]] = lst
    if cls == "foreign":
        # E0 of a >=2-Einsum cascade always lacks the later Einsums' outputs
        e = draw(st.sampled_from([x for x in wl["einsums"] if set(all_t) - set(R.tensors_of(x))]))
        foreign = [t for t in all_t if t not in R.tensors_of(e)]
        f = draw(st.sampled_from(foreign))
        sub = draw(tree(base_r + R.tensors_of(e), 2))
        t = [draw(st.sampled_from(BIN)), ["name", f], sub]
        if draw(st.booleans()):
            t = [t[0], t[2], t[1]]
        local.setdefault(e["name"], []).append(["locf", t])
    pt = None
    if cls == "pt":
        # persistent flags must agree across the Einsums that share a tensor, so the expression may only use leaves
        # whose membership of a tensor does not depend on the Einsum (everything but Inputs/Outputs, transitively)
        inv = ["All", "Tensors", "Intermediates", "Shared", "Nothing"] + all_t
        for nm, tr in default:
            if R.names_of(tr) <= set(inv):
                inv.append(nm)
        pt = draw(tree(inv, draw(st.integers(0, 3))))
    arch_leaves = R.BASE_SETS + all_t + [d[0] for d in default]
    exprs = [draw(tree(arch_leaves, draw(st.integers(1, 4)))) for _ in range(draw(st.integers(2, 3)))]
    dict_leaves = [b for b in arch_leaves if not (cls == "pt" and b == "Persistent")]
    mem = None
    if draw(st.integers(0, 9)) < 6:
        mem = {"field": draw(st.sampled_from(["bits_per_value", "values_per_action"])), "items": draw(key_items(arch_leaves))}
    wlb = None
    if draw(st.integers(0, 9)) < 4:
        wlb = draw(key_items(dict_leaves))
    return {"wl": wl, "cls": cls, "paren": draw(st.sampled_from(["full", "min"])), "default": default,
            "local": local, "pt": pt, "exprs": exprs, "mem": mem, "wlb": wlb}


ARCH_FIELDS = ["keep", "may_keep", "no_refetch_from_above"]


def _build(desc, with_mem=True):
    from accelforge.frontend.spec import Spec
    from accelforge.frontend.workload import Workload
    from accelforge.frontend.renames import Renames
    import accelforge.frontend.arch as A

    wl, mode = desc["wl"], desc["paren"]
    rd = lambda t: R.render(t, mode)  # noqa: E731
    local = {e: {nm: rd(tr) for nm, tr in lst} for e, lst in desc["local"].items()}
    kw = {}
    if desc["pt"] is not None:
        kw["persistent_tensors"] = rd(desc["pt"])
    bpv = {"All": 8} if desc["wlb"] is None else {rd(k): v for k, v in desc["wlb"]}
    workload = Workload(einsums=einsum_dicts(wl, local), bits_per_value=bpv, **kw)
    ren = []
    if desc["default"]:
        ren.append({"name": "default", "tensor_accesses": {nm: rd(tr) for nm, tr in desc["default"]}})
    memkw = {}
    if desc["mem"] is not None and with_mem:
        memkw[desc["mem"]["field"]] = {rd(k): v for k, v in desc["mem"]["items"]}
    tensors = {f: rd(t) for f, t in zip(ARCH_FIELDS, desc["exprs"])}
    arch = A.Arch(nodes=[A.Memory(name="MainMem", size=1, tensors=tensors, **memkw), A.Compute(name="mac")])
    return Spec(workload=workload, arch=arch, renames=Renames(einsums=ren))


def _inst(x):
    from accelforge.util._setexpressions import InvertibleSet

    if not isinstance(x, InvertibleSet):
        return None
    return frozenset(x.instance)


def _reference(desc):
    wl = desc["wl"]
    ref = {}
    for e in wl["einsums"]:
        en = e["name"]
        uni = R.universes(wl, en)
        env = R.base_env(wl, en)
        ren = {}
        for nm, tr in desc["local"].get(en, []):
            env[nm] = ren[nm] = R.eval_tree(tr, env, uni, wl)
        for nm, tr in desc["default"]:
            env[nm] = ren[nm] = R.eval_tree(tr, env, uni, wl)
        extra = R.eval_tree(desc["pt"], env, uni, wl)[1] if desc["pt"] is not None else frozenset()
        env_arch = dict(env)
        env_arch["Persistent"] = ("T", env["Persistent"][1] | extra)
        r = {"uni": uni, "env": env, "ren": ren, "extra_persistent": extra,
             "arch": [R.eval_tree(t, env_arch, uni, wl)[1] for t in desc["exprs"]],
             "arch_stale": [R.eval_tree(t, env, uni, wl)[1] for t in desc["exprs"]]}
        if desc["mem"] is not None:
            r["mem"] = R.eval_key_dict([(k, v) for k, v in desc["mem"]["items"]], env_arch, uni, wl)
            r["mem_stale"] = R.eval_key_dict([(k, v) for k, v in desc["mem"]["items"]], env, uni, wl)
        if desc["wlb"] is not None:
            r["wlb"] = R.eval_key_dict([(k, v) for k, v in desc["wlb"]], env, uni, wl)
        ref[en] = r
    return ref


def check(desc, col):
    from accelforge.util.exceptions import EvaluationError

    wl = desc["wl"]
    names = [e["name"] for e in wl["einsums"]]
    ref = _reference(desc)

    # ---- classification -------------------------------------------------------------
    observed = []
    for en in names:
        r = ref[en]
        for nm, tr in desc["local"].get(en, []):
            observed.append((tr, r["ren"][nm][1], r["uni"]["T"]))
        for nm, tr in desc["default"]:
            observed.append((tr, r["ren"][nm][1], r["uni"]["T"]))
        for tr, s in zip(desc["exprs"], r["arch"]):
            observed.append((tr, s, r["uni"]["T"]))
    nontrivial = any(R.depth(t) >= 2 and (R.ops_of(t) & {"not", "xor"}) and s and s != u for t, s, u in observed)
    ops = set()
    for t, _, _ in observed:
        ops |= R.ops_of(t)
    labels = [f"class:{desc['cls']}", f"einsums:{len(names)}", f"paren:{desc['paren']}"] + [f"op:{o}" for o in sorted(ops)]
    labels += [f"maxdepth:{max(R.depth(t) for t, _, _ in observed)}"]
    for t, s, u in observed:
        labels.append("result:" + ("empty" if not s else "full" if s == u else "proper"))
    for b in ("Intermediates", "Shared", "Persistent"):
        if any(ref[en]["env"][b][1] for en in names):
            labels.append(f"nonempty:{b}")
    if any(any(n in wl["tensors"] and n not in ref[en]["uni"]["T"] for t in desc["exprs"] for n in R.names_of(t)) for en in names):
        labels.append("leaf:foreign-tensor-at-arch-level")
    if desc["local"]:
        labels.append("has:local-renames")
    if desc["default"]:
        labels.append("has:default-renames")
    if any(R.names_of(t) & {x[0] for x in desc["default"]} for t in desc["exprs"]):
        labels.append("leaf:rename-name-at-arch-level")
    for which in ("mem", "wlb"):
        if desc[which] is None:
            continue
        items = desc[which]["items"] if which == "mem" else desc[which]
        has_other = any("Other" in R.names_of(k) for k, _ in items)
        labels.append(f"{which}:" + ("Other-key" if has_other else "no-Other"))
        if any(k[0] != "name" and "Other" in R.names_of(k) for k, _ in items):
            labels.append(f"{which}:Other-inside-expression")
        for en in names:
            labels.append(f"{which}:{ref[en][which][0]}")
    col.case(desc, nontrivial, labels,
             sample={"einsums": [[e["name"], e["inputs"], e["output"]] for e in wl["einsums"]],
                     "arch_exprs": [R.render(t, desc["paren"]) for t in desc["exprs"]],
                     "expected_E0": [sorted(s) for s in ref[names[0]]["arch"]]})

    spec = must(_build, desc, what="building the spec")

    # ---- workload-level dictionary: errors are global ----------------------------------
    wl_error = None
    if desc["wlb"] is not None:
        per_tensor, uncovered = {}, False
        for e in wl["einsums"]:
            status, mapping, _ = ref[e["name"]]["wlb"]
            if status != "ok":
                wl_error = "overlap"
                continue
            for t in R.tensors_of(e):
                if t not in mapping:
                    uncovered = True
                else:
                    per_tensor.setdefault(t, set()).add(mapping[t])
        if wl_error is None and uncovered:
            wl_error = "uncovered"
        if wl_error is None and any(len(v) > 1 for v in per_tensor.values()):
            wl_error = "inconsistent"
        col.label(f"wlb-expected:{wl_error or 'ok'}")
    if wl_error is not None:
        try:
            spec._spec_eval_expressions(einsum_name=names[0])
        except Exception as ex:  # noqa: BLE001 - any rejection is what the property asks for
            col.label(f"wlb-rejected-with:{type(ex).__name__}")
            if desc["cls"] == "foreign" and "is not defined" in str(ex):
                raise Violation(_foreign_msg(desc, ex), key=KNOWN_FOREIGN)
            return
        raise Violation(
            f"workload bits_per_value {dict((R.render(k, desc['paren']), v) for k, v in desc['wlb'])} should be rejected "
            f"({wl_error}) but evaluation succeeded", key=f"wlb-{wl_error}-accepted")

    # ---- per Einsum ---------------------------------------------------------------------
    for en in names:
        r = ref[en]
        mem_status = r["mem"][0] if desc["mem"] is not None else None
        use = spec
        if mem_status == "overlap":
            try:
                spec._spec_eval_expressions(einsum_name=en)
            except Exception as ex:  # noqa: BLE001 - any rejection satisfies "overlapping keys are rejected"
                if desc["cls"] == "foreign" and "is not defined" in str(ex):
                    raise Violation(_foreign_msg(desc, ex), key=KNOWN_FOREIGN)
                col.label(f"mem-overlap-rejected-with:{type(ex).__name__}")
            else:
                if desc["pt"] is not None and r["mem_stale"][0] != "overlap":
                    raise Violation(_persist_msg(desc, en, "Memory dictionary keys overlap only once Persistent includes "
                                                           "the tensors marked by persistent_tensors"), key=KNOWN_PERSISTENT)
                raise Violation(
                    f"Memory {desc['mem']['field']} keys {[R.render(k, desc['paren']) for k, _ in desc['mem']['items']]} overlap for Einsum "
                    f"{en} (sets {[sorted(s) for s in r['mem'][2]]}) but were accepted", key="mem-overlap-accepted")
            use = must(_build, desc, False, what="building the spec")
        try:
            ev = use._spec_eval_expressions(einsum_name=en)
        except Exception as ex:  # noqa: BLE001
            if desc["cls"] == "foreign" and "is not defined" in str(ex):
                raise Violation(_foreign_msg(desc, ex), key=KNOWN_FOREIGN)
            if (desc["pt"] is not None and desc["mem"] is not None and use is spec and r["mem_stale"][0] == "overlap"
                    and "overlap" in str(ex)):
                raise Violation(_persist_msg(desc, en, "Memory dictionary keys overlap only with the stale Persistent"),
                                key=KNOWN_PERSISTENT)
            raise Violation(f"_spec_eval_expressions(einsum_name={en}) raised {type(ex).__name__}: {str(ex)[:1500]}",
                            key=f"crash:{type(ex).__name__}")
        es = ev.workload.einsums[en]
        # rename sources
        for nm, (sp, want) in r["ren"].items():
            got = _inst(es.renames[nm].source)
            if got != want:
                tr = dict(desc["local"].get(en, []) + desc["default"])[nm]
                raise Violation(
                    f"Einsum {en} rename {nm} = '{R.render(tr, desc['paren'])}' evaluated to "
                    f"{sorted(got) if got is not None else es.renames[nm].source!r}, set algebra gives {sorted(want)}; "
                    f"einsum={R.einsum_by_name(wl, en)}", key="rename-source:" + _opkey(tr))
        # named base sets as published by the Einsum
        for b in R.BASE_SETS:
            got = _inst(es.renames[b].source)
            want = r["env"][b][1] | (r["extra_persistent"] if b == "Persistent" else frozenset())
            if got != want:
                if b == "Persistent" and got == r["env"][b][1]:
                    raise Violation(_persist_msg(desc, en, f"published Persistent = {sorted(got)}, tensors with persistent=True: {sorted(want)}"),
                                    key=KNOWN_PERSISTENT)
                raise Violation(f"Einsum {en}: named set {b} = {sorted(got) if got is not None else None}, expected {sorted(want)}; "
                                f"workload {wl['einsums']}", key=f"named-set:{b}")
        # persistent flags vs persistent_tensors
        for t in es.tensor_accesses:
            want_p = bool(wl["tensors"][t.name].get("persistent")) or t.name in r["extra_persistent"]
            if bool(t.persistent) != want_p:
                raise Violation(f"Einsum {en} tensor {t.name}: persistent={t.persistent}, expected {want_p}", key="persistent-flag")
        # architecture-level expressions
        mem = ev.arch.find("MainMem")
        for f, tr, want, stale in zip(ARCH_FIELDS, desc["exprs"], r["arch"], r["arch_stale"]):
            got = _inst(getattr(mem.tensors, f))
            if got is None:
                raise Violation(f"MainMem.tensors.{f} = '{R.render(tr, desc['paren'])}' was not evaluated for Einsum {en}: "
                                f"{getattr(mem.tensors, f)!r}", key="arch-expr-not-evaluated")
            if got != want:
                if desc["pt"] is not None and got == stale:
                    raise Violation(_persist_msg(desc, en, f"tensors.{f} = '{R.render(tr, desc['paren'])}' -> {sorted(got)}, expected {sorted(want)}"),
                                    key=KNOWN_PERSISTENT)
                raise Violation(
                    f"MainMem.tensors.{f} = '{R.render(tr, desc['paren'])}' for Einsum {en} evaluated to {sorted(got)}, set algebra "
                    f"gives {sorted(want)}; einsum={R.einsum_by_name(wl, en)} workload={wl['einsums']}", key="arch-expr:" + _opkey(tr))
        # Memory dictionary
        if desc["mem"] is not None and mem_status == "ok":
            got = dict(getattr(mem, desc["mem"]["field"]))
            want = r["mem"][1]
            if got != want:
                if desc["pt"] is not None and r["mem_stale"][0] == "ok" and got == r["mem_stale"][1]:
                    raise Violation(_persist_msg(desc, en, f"Memory dictionary -> {got}, expected {want}"), key=KNOWN_PERSISTENT)
                items = [(R.render(k, desc["paren"]), v) for k, v in desc["mem"]["items"]]
                other = any("Other" in R.names_of(k) for k, _ in desc["mem"]["items"])
                raise Violation(f"MainMem.{desc['mem']['field']} = {items} for Einsum {en} gives {got}, expected {want}; "
                                f"einsum={R.einsum_by_name(wl, en)}", key="mem-dict:" + ("Other" if other else "plain"))
        # workload dictionary
        if desc["wlb"] is not None:
            want = r["wlb"][1]
            for t in es.tensor_accesses:
                if t.bits_per_value != want[t.name]:
                    items = [(R.render(k, desc["paren"]), v) for k, v in desc["wlb"]]
                    raise Violation(f"workload bits_per_value {items}: Einsum {en} tensor {t.name} got {t.bits_per_value}, "
                                    f"expected {want[t.name]}", key="wlb-dict")


def _opkey(tr):
    ops = R.ops_of(tr)
    for o in ("not", "xor", "sub", "and", "or"):
        if o in ops:
            return o
    return "leaf"


def _foreign_msg(desc, ex):
    loc = {e: {n: R.render(t, desc["paren"]) for n, t in l} for e, l in desc["local"].items()}
    return ("a rename source that names a tensor of another Einsum is rejected instead of treating that tensor as the "
            f"empty set (docs: '<Any Tensor Name> ... not used in the current Einsum ... resolves to the empty set'): "
            f"local renames {loc}; {type(ex).__name__}: {str(ex)[:200]}")


def _persist_msg(desc, en, what):
    return (f"workload.persistent_tensors = '{R.render(desc['pt'], desc['paren'])}' marks tensors persistent but the named set "
            f"Persistent does not include them (Einsum {en}): {what}")


N = {"quick": 480, "thorough": 4800}
NSHARDS = 6


def shards(tier, seed):
    return [{"k": k, "n": N[tier] // NSHARDS, "seed": seed} for k in range(NSHARDS)]


def run_shard(shard, col):
    drive(cases(), check, n=shard["n"], seed=hash32(shard["seed"], "C22", shard["k"]), col=col)


def replay(desc, col):
    check(desc, col)


MUTANTS = [
    {"what": "InvertibleSet.__invert__: instance - full_space", "caught": True, "how": "arch-expr:not, mem-dict:*, wlb-*"},
    {"what": "eval_set_expression_dict: Other no longer reduced by the evaluated keys", "caught": True, "how": "crash:EvaluationError (Other overlaps every key)"},
    {"what": "InvertibleSet.__xor__ implemented as |", "caught": True, "how": "arch-expr:xor, wlb-*"},
    {"what": "eval_set_expression_dict: pairwise disjointness check disabled", "caught": True, "how": "mem-overlap-accepted"},
    {"what": "Einsum._eval_expressions: Intermediates = consumed OR produced", "caught": True, "how": "named-set:Intermediates, rename-source:*"},
    {"what": "InvertibleSet.__sub__: operands swapped", "caught": True, "how": "arch-expr:*, rename-source:*, mem-dict:Other"},
    {"what": "Einsum._eval_expressions: Shared = used by >= 1 Einsum", "caught": True, "how": "named-set:Shared, rename-source:*"},
]

REGISTER = True
MANIFEST = {
    "level_text": "Randomised exploration (Hypothesis, 480 / 4800 workload+expression bundles per run, each evaluated for every Einsum): rename sources, a Memory's tensors.keep/may_keep/no_refetch_from_above and dictionaries keyed by set expressions (Memory bits_per_value / values_per_action, workload bits_per_value; with/without Other, overlapping keys) are compared with a frozenset reference.",
    "level_note": "Trusted: vf/ref/setalg.py (named sets and complement as documented in evaluation.rst). Two open findings are tolerated by key: a rename source naming a tensor of another Einsum raises instead of giving the empty set; the named set Persistent ignores workload.persistent_tensors. Toll.direction dictionaries are not covered (no Other support in _eval_direction). Above / MemoryObject.Tensors are not covered. 7/7 mutants caught.",
    "technique": "property-based testing against a frozenset reference model",
}
