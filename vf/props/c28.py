"""C28 — result breakdowns aggregate consistently to the reported totals."""

import itertools
import math

from hypothesis import strategies as st

from vf.core import Violation, close, drive, hash32, must
from vf.gen import spec as G

PROPERTY = "C28"
LEVEL = "exploration"
TOLERANCE = "rel 1e-5 (abs 1e-6) on every aggregated value; the result tables are float32/float64 sums of small numbers"
RULE = (
    "Hypothesis-generated G-SPEC specs (1-3 Einsums: matmul / chain of 2-3 matmuls / 2 elementwise ops / diamond; Main + "
    "optional Toll + GLB + MAC; non-zero leak powers, finite throughputs, workload- and Einsum-level n_instances, metric "
    "sets E, L, E|L, E|L|RESOURCE_USAGE, EDP; optionally names that are substrings of one another) are run through the real "
    "mapper (default eval_in_detail=True). The oracle re-aggregates the RAW columns of Mappings.data itself (split on "
    "<SEP>, no use of access/_get_cols) and compares, per row, with: energy() under all 16 per_* flag combinations, "
    "actions() under all 8, latency() under all 4, resource_usage(), each with list_if_one_mapping False and True, on "
    "the whole result set and on the single-row views m[i]. Checked: energy() == Total<SEP>energy == sum of every "
    "breakdown; every breakdown == the marginal of the finest one; latency() == Total<SEP>latency == sum over Einsums of "
    "the max component latency; per-component latency == sum over Einsums; resource_usage()[mem] == max over the "
    "reservation columns of mem (also on a copy of the table with two extra reservation columns per memory, since final "
    "results carry a single consolidated one); list/scalar shape of every returned value. Non-trivial: >= 2 Einsums AND >= 2 returned "
    "rows AND a non-zero leak energy. Distinct = distinct spec descriptor."
)
ASSUMPTIONS = [
    "column grammar read from the docs/df_convention: <einsum><SEP>energy<SEP><component><SEP><tensor><SEP><action>, "
    "<einsum><SEP>energy<SEP><component><SEP>leak, <einsum><SEP>action<SEP><component><SEP><tensor><SEP><action>, "
    "<einsum><SEP>latency<SEP><component>, reservation<SEP><memory><SEP>..., Total<SEP>energy|latency",
    "domain = results that carry breakdown columns (the default eval_in_detail=True). With eval_in_detail=False the "
    "table has only Total/reservation columns and energy() returns 0, latency() None: observed, reported, not generated",
    "keys of returned dicts are compared as sets of non-zero entries (a missing key counts as 0)",
]

SEP = "<SEP>"
FLAGS4 = list(itertools.product([False, True], repeat=4))
FLAGS3 = list(itertools.product([False, True], repeat=3))
FLAGS2 = list(itertools.product([False, True], repeat=2))

NESTED = {"E0": "E0", "E1": "E01", "E2": "E012", "P0": "E0", "P1": "E01", "C": "E012",
          "T0": "T0", "T1": "T01", "T2": "T012", "T3": "T0123", "W0": "W0", "W1": "W01", "W2": "W012",
          "B0": "W0", "B1": "W01", "A": "T0", "B": "T01", "Z": "T012", "A0": "T0", "A1": "T01", "U": "U", "V": "UV",
          "Main": "Mem", "GLB": "Mem2", "Tl": "Mem2t", "MAC": "Mem2tc"}


@st.composite
def cases(draw, salt=0):
    wl = draw(G.workloads(shapes=("chain2", "chain2", "chain2", "elementwise2", "matmul", "chain3", "diamond"),
                          bound_pool=[1, 2, 2, 3, 4, 6], max_ops=200))
    if wl["shape"] in ("chain3", "diamond"):
        wl["bounds"] = {k: min(v, 3) for k, v in wl["bounds"].items()}
    bits = list(wl["bits"].values())[0]
    sizes = G.tensor_sizes(wl)
    tot, big = sum(sizes.values()), max(sizes.values())
    main_keep = draw(st.sampled_from(["~Intermediates", "~Intermediates", "All"]))
    leak = st.sampled_from([1, 0, 0.25, 2])
    tp = st.sampled_from(["inf", 0.5, 1, 2, 4])
    en = st.sampled_from([0, 0.5, 1, 2, 3, 8])
    nodes = [{"type": "Memory", "name": "Main", "size": "inf", "keep": main_keep, "may_keep": "All",
              "read": [draw(en) + 1, draw(tp)], "write": [draw(en) + 1, draw(tp)], "leak": draw(leak)}]
    toll = None
    if draw(st.integers(0, 2)) == 0:
        toll = {"type": "Toll", "name": "Tl", "keep": draw(st.sampled_from(["All", "All", "Inputs", "Outputs"])),
                "direction": draw(st.sampled_from(["up", "down", "up_and_down"])),
                "read": [draw(st.sampled_from([1, 5, 0.5])), draw(tp)], "leak": draw(leak)}
        if toll["keep"] != "All":
            toll["may_keep"] = "All"
    glb = {"type": "Memory", "name": "GLB",
           "size": draw(st.sampled_from(["inf", tot * bits, max(2, tot // 2) * bits, (big + 2) * bits])),
           "keep": "~Main" if main_keep != "All" else "Nothing", "may_keep": "All",
           "read": [draw(en), draw(tp)], "write": [draw(en), draw(tp)], "leak": draw(leak)}
    if toll and draw(st.booleans()):
        nodes += [toll, glb]
    elif toll:
        nodes += [glb, toll]
    else:
        nodes.append(glb)
    nodes.append({"type": "Compute", "name": "MAC", "compute": [draw(en), draw(st.sampled_from([1, 1, 2, 0.5]))],
                  "leak": draw(leak)})
    # per-component scale attributes (default 1 everywhere in ordinary architectures): different values on different
    # components make any mix-up between components visible in the breakdowns
    if draw(st.integers(0, 1)):
        for n in nodes:
            if draw(st.integers(0, 2)):
                n["actions_scale"] = draw(st.sampled_from([2, 3, 0.5, 5]))
            if draw(st.integers(0, 3)) == 0:
                n["energy_scale"] = draw(st.sampled_from([2, 0.5]))
    d = dict(wl)
    d["nodes"] = nodes
    d["n_instances"] = draw(st.sampled_from([1, 1, 1, 1, 2]))
    d["einsums"] = [dict(e) for e in d["einsums"]]
    if draw(st.integers(0, 3)) == 0:
        draw(st.sampled_from(d["einsums"]))["n_instances"] = draw(st.sampled_from([2, 3]))
    pool = ["ENERGY|LATENCY|RESOURCE_USAGE", "ENERGY|LATENCY", "ENERGY|LATENCY|RESOURCE_USAGE", "ENERGY", "ENERGY|LATENCY",
            "LATENCY", "ENERGY|LATENCY|RESOURCE_USAGE", "ENERGY_DELAY_PRODUCT"]
    d["mapper"] = {"metrics": draw(st.sampled_from(pool[salt % len(pool):] + pool[:salt % len(pool)]))}
    d["names"] = draw(st.sampled_from(["plain", "plain", "nested"]))
    return d


# ---------------------------------------------------------------------------
# oracle: re-aggregate the raw table
# ---------------------------------------------------------------------------

def parse_table(df, einsum_names):
    """-> dict of raw cells, each value a list of floats (one per row)"""
    n = len(df)
    energy, actions, latency, reserv, totals = {}, {}, {}, {}, {}
    energy_all = [0.0] * n
    odd = []
    for c in df.columns:
        p = c.split(SEP)
        if p[-1] == "mapping":
            continue
        vals = [float(x) for x in df[c]]
        if p[0] == "Total":
            totals[SEP.join(p[1:])] = vals
        elif p[0] == "reservation":
            reserv.setdefault(p[1], []).append(vals)
        elif p[0] in einsum_names and len(p) >= 2:
            if p[1] == "energy":
                energy_all = [a + b for a, b in zip(energy_all, vals)]
                if len(p) == 5:
                    key = (p[0], p[2], p[3], p[4])
                elif len(p) == 4 and p[3] == "leak":
                    key = (p[0], p[2], None, "leak")
                else:
                    odd.append(c)
                    continue
                energy[key] = [a + b for a, b in zip(energy.get(key, [0.0] * n), vals)]
            elif p[1] == "action":
                if len(p) != 5:
                    odd.append(c)
                    continue
                actions[(p[0], p[2], p[3], p[4])] = vals
            elif p[1] == "latency":
                if len(p) != 3:
                    odd.append(c)
                    continue
                latency[(p[0], p[2])] = vals
    return {"energy": energy, "energy_all": energy_all, "actions": actions, "latency": latency, "reservation": reserv,
            "totals": totals, "odd": odd, "n": n}


def marginal(cells, keep):
    out = {}
    for key, vals in cells.items():
        k = tuple(key[i] for i in keep)
        if len(keep) == 1:
            k = k[0]
        out[k] = [a + b for a, b in zip(out.get(k, [0.0] * len(vals)), vals)]
    return out


def as_rows(v, n, single, list_if_one, what):
    """normalise an API return value to a list of n floats, checking the documented list/scalar shape"""
    want_list = (not single) or list_if_one
    if want_list:
        if not isinstance(v, list) or len(v) != n:
            raise Violation(f"{what}: expected a list of {n} values, got {type(v).__name__} {str(v)[:80]}", key="shape")
        return [float(x) for x in v]
    if isinstance(v, (list, dict)):
        raise Violation(f"{what}: expected a scalar for a single mapping, got {type(v).__name__}", key="shape")
    return [float(v)]


def cmp_rows(have, want, what, key):
    for i, (h, w) in enumerate(zip(have, want)):
        if not close(h, w, rel=1e-5, abs_=1e-6):
            raise Violation(f"{what}, row {i}: API {h} vs re-aggregated raw columns {w}", key=key)


def cmp_dict(got, want, n, single, lio, what, key):
    if not isinstance(got, dict):
        raise Violation(f"{what}: expected a dict, got {type(got).__name__}", key="shape")
    for k in sorted(set(got) | set(want), key=repr):
        w = want.get(k, [0.0] * n)
        if k not in got:
            if any(abs(x) > 1e-9 for x in w):
                raise Violation(f"{what}: key {k!r} missing from the API result, raw columns give {w}", key=key + ":missing")
            continue
        cmp_rows(as_rows(got[k], n, single, lio, f"{what}[{k!r}]"), w, f"{what}[{k!r}]", key)


def fl(flags, letters):
    return "".join(l if f else "-" for f, l in zip(flags, letters))


def check_view(m, einsum_names, single, counts):
    """all aggregation checks on one Mappings object (a whole result set, or a single-row view)"""
    raw = parse_table(m.data, einsum_names)
    n = raw["n"]
    tag = "row-view" if single else "set"
    if raw["odd"]:
        raise Violation(f"columns outside the documented grammar: {raw['odd'][:4]}", key="column-grammar")
    tot_e = raw["totals"].get("energy")
    tot_l = raw["totals"].get("latency")
    if tot_e is None or tot_l is None:
        raise Violation(f"result lacks Total energy/latency columns: {sorted(raw['totals'])}", key="missing-total")
    cmp_rows(raw["energy_all"], tot_e, f"[{tag}] sum of all <einsum><SEP>energy columns vs Total<SEP>energy", "energy:columns-vs-total")
    if "dynamic_energy" in raw["totals"] and "leak_energy" in raw["totals"]:
        dyn = [sum(v[i] for k, v in raw["energy"].items() if k[3] != "leak") for i in range(n)]
        lk = [sum(v[i] for k, v in raw["energy"].items() if k[3] == "leak") for i in range(n)]
        cmp_rows(dyn, raw["totals"]["dynamic_energy"], f"[{tag}] sum of non-leak energy columns vs Total<SEP>dynamic_energy", "energy:dynamic-vs-total")
        cmp_rows(lk, raw["totals"]["leak_energy"], f"[{tag}] sum of leak energy columns vs Total<SEP>leak_energy", "energy:leak-vs-total")
    if "energy_delay_product" in raw["totals"]:
        cmp_rows(raw["totals"]["energy_delay_product"], [a * b for a, b in zip(tot_e, tot_l)],
                 f"[{tag}] Total<SEP>energy_delay_product vs Total energy x Total latency", "edp-vs-total")
    for lio in (False, True):
        # ---- energy ----------------------------------------------------------------
        for flags in FLAGS4:
            keep = [i for i, f in enumerate(flags) if f]
            what = f"[{tag}] energy({fl(flags, 'ECTA')}, list_if_one={lio})"
            got = must(m.energy, per_einsum=flags[0], per_component=flags[1], per_tensor=flags[2], per_action=flags[3],
                       list_if_one_mapping=lio, what=what)
            counts[f"energy:{fl(flags, 'ECTA')}"] = counts.get(f"energy:{fl(flags, 'ECTA')}", 0) + 1
            if not keep:
                cmp_rows(as_rows(got, n, single, lio, what), tot_e, what + " vs Total<SEP>energy", "energy:total")
                continue
            want = marginal(raw["energy"], keep)
            cmp_dict(got, want, n, single, lio, what, "energy:breakdown")
            s = [sum(as_rows(v, n, single, lio, what)[i] for v in got.values()) for i in range(n)]
            cmp_rows(s, tot_e, what + ": sum of the breakdown vs Total<SEP>energy", "energy:breakdown-sum")
        # ---- actions ---------------------------------------------------------------
        fine = None
        for flags in FLAGS3:
            keep = [i for i, f in enumerate(flags) if f] + [3]
            what = f"[{tag}] actions({fl(flags, 'ECT')}, list_if_one={lio})"
            got = must(m.actions, per_einsum=flags[0], per_component=flags[1], per_tensor=flags[2],
                       list_if_one_mapping=lio, what=what)
            counts[f"actions:{fl(flags, 'ECT')}"] = counts.get(f"actions:{fl(flags, 'ECT')}", 0) + 1
            want = marginal(raw["actions"], keep)
            cmp_dict(got, want, n, single, lio, what, "actions:breakdown")
            if all(flags):
                fine = got
        if fine is not None:
            # the coarsest breakdown (per action name) equals the sum of the finest, computed from the API's own output
            coarse = must(m.actions, per_einsum=False, per_component=False, per_tensor=False, list_if_one_mapping=lio,
                          what="actions(---)")
            for a in coarse:
                s = [sum(as_rows(v, n, single, lio, "actions")[i] for k, v in fine.items() if k[3] == a) for i in range(n)]
                cmp_rows(as_rows(coarse[a], n, single, lio, "actions"), s, f"[{tag}] actions()[{a!r}] vs sum of actions(ECT)[*,*,*,{a!r}]",
                         "actions:breakdown-sum")
        # ---- latency ---------------------------------------------------------------
        per_e = {}
        for (e, c), v in raw["latency"].items():
            per_e[e] = [max(a, b) for a, b in zip(per_e.get(e, [0.0] * n), v)]
        sum_max = [sum(v[i] for v in per_e.values()) for i in range(n)]
        cmp_rows(sum_max, tot_l, f"[{tag}] sum over Einsums of max component latency columns vs Total<SEP>latency", "latency:columns-vs-total")
        for flags in FLAGS2:
            what = f"[{tag}] latency({fl(flags, 'EC')}, list_if_one={lio})"
            got = must(m.latency, per_einsum=flags[0], per_component=flags[1], list_if_one_mapping=lio, what=what)
            counts[f"latency:{fl(flags, 'EC')}"] = counts.get(f"latency:{fl(flags, 'EC')}", 0) + 1
            if flags == (False, False):
                cmp_rows(as_rows(got, n, single, lio, what), tot_l, what + " vs Total<SEP>latency", "latency:total")
            elif flags == (True, False):
                cmp_dict(got, per_e, n, single, lio, what, "latency:per-einsum")
            elif flags == (False, True):
                cmp_dict(got, marginal(raw["latency"], [1]), n, single, lio, what, "latency:per-component")
            else:
                cmp_dict(got, dict(raw["latency"]), n, single, lio, what, "latency:per-einsum-component")
        # ---- resource usage --------------------------------------------------------
        what = f"[{tag}] resource_usage(list_if_one={lio})"
        got = must(m.resource_usage, list_if_one_mapping=lio, what=what)
        want = {mem: [max(col[i] for col in cols) for i in range(n)] for mem, cols in raw["reservation"].items()}
        if set(got) != set(want):
            raise Violation(f"{what}: memories {sorted(got)} vs reservation columns for {sorted(want)}", key="usage:keys")
        cmp_dict(got, want, n, single, lio, what, "usage:max")
    return raw


def check(desc, col):
    d = G.rename(desc, NESTED) if desc.get("names") == "nested" else desc
    spec = G.build_spec(d)
    einsum_names = [e["name"] for e in d["einsums"]]
    has_toll = any(n["type"] == "Toll" for n in d["nodes"])
    base = [f"einsums:{len(einsum_names)}", "toll" if has_toll else "no_toll", f"names:{desc.get('names', 'plain')}",
            f"metrics:{desc['mapper']['metrics']}",
            "n_instances>1" if desc.get("n_instances", 1) > 1 or any(e.get("n_instances", 1) > 1 for e in desc["einsums"]) else "n_instances=1"]
    try:
        m = G.run_mapper2(spec)
    except G.Infeasible:
        col.case(desc, False, base + ["mapper:infeasible"])
        return
    except Exception as e:  # noqa: BLE001
        col.case(desc, False, base + ["mapper:crash"])
        raise Violation(f"map_workload_to_arch raised {type(e).__name__}: {str(e)[:400]}", key=f"mapper-crash:{type(e).__name__}")
    n = len(m.data)
    raw0 = parse_table(m.data, einsum_names)
    leak = any(k[3] == "leak" and any(abs(x) > 0 for x in v) for k, v in raw0["energy"].items())
    toll_used = has_toll and any(k[1] == d["nodes"][[x["type"] for x in d["nodes"]].index("Toll")]["name"] and any(x > 0 for x in v)
                                 for k, v in raw0["actions"].items())
    nontrivial = len(einsum_names) >= 2 and n >= 2 and leak
    labels = base + [f"rows:{min(n, 3)}{'+' if n >= 3 else ''}", "leak:nonzero" if leak else "leak:zero",
                     "toll_actions:nonzero" if toll_used else "toll_actions:none",
                     "actions_scale:differs" if len({x.get("actions_scale", 1) for x in desc["nodes"]}) > 1 else "actions_scale:uniform"]
    col.case(desc, nontrivial, labels,
             sample={"shape": desc.get("shape"), "bounds": desc["bounds"], "rows": n, "metrics": desc["mapper"]["metrics"],
                     "total_energy": raw0["totals"].get("energy", [None])[:3], "total_latency": raw0["totals"].get("latency", [None])[:3]})
    counts = {}
    check_view(m, einsum_names, single=(n == 1), counts=counts)
    for i in sorted({0, n - 1, n // 2}):
        check_view(m[i], einsum_names, single=True, counts=counts)
        col.label("single_row_view")
    # ---- several reservation columns per memory ------------------------------------------------------
    # Final mapper results carry one consolidated reservation column per memory, so "max over the reservation columns"
    # would be vacuous on them.  Tables with several columns per memory arise inside the joiner; build one from the real
    # result (extra columns at other loop levels / sides with smaller and larger values) and ask the same question.
    if raw0["reservation"]:
        from accelforge.mapper.FFM.mappings import Mappings

        df = m.data.copy()
        want = {}
        for j, mem in enumerate(sorted(raw0["reservation"])):
            basecol = [c for c in m.data.columns if c.split(SEP)[:2] == ["reservation", mem]][0]
            b = [float(x) for x in m.data[basecol]]
            extra = {f"reservation{SEP}{mem}{SEP}0{SEP}left": [x * 0.5 + 0.125 * (i % 2) for i, x in enumerate(b)],
                     f"reservation{SEP}{mem}{SEP}1{SEP}right": [x * 0.25 + 0.0625 * ((i + j) % 3) for i, x in enumerate(b)]}
            for c, v in extra.items():
                if c not in df.columns:
                    df[c] = v
            cols = [c for c in df.columns if c.split(SEP)[:2] == ["reservation", mem]]
            want[mem] = [max(float(df[c].iloc[i]) for c in cols) for i in range(n)]
        syn = Mappings(m.spec, m.einsum_names, df, m.total_mappings, m.valid_mappings, m.flattened_arches, m.evaluated_specs)
        for lio in (False, True):
            got = must(syn.resource_usage, list_if_one_mapping=lio, what="resource_usage on a table with 3 reservation columns per memory")
            cmp_dict(got, want, n, n == 1, lio, f"[synthetic reservations] resource_usage(list_if_one={lio})", "usage:max")
        col.label("synthetic_reservation_columns")
    for k, v in counts.items():
        col.labels["calls:" + k] += v


N = {"quick": 64, "thorough": 640}
NSHARDS = 16
QUICK_BUDGET_S = 400
THOROUGH_BUDGET_S = 2400


def shards(tier, seed):
    return [{"k": k, "n": N[tier] // NSHARDS, "seed": seed} for k in range(NSHARDS)]


def run_shard(shard, col):
    import os

    # VF_NO_SHRINK=1 (mutation experiments only): skip Hypothesis shrinking, each step of which is a mapper run
    drive(cases(shard["k"] + hash32(shard["seed"], "C28salt") % 8), check, n=shard["n"], seed=hash32(shard["seed"], "C28", shard["k"]), col=col,
          shrink=os.environ.get("VF_NO_SHRINK") != "1")


def replay(desc, col):
    check(desc, col)


REGISTER = True
MUTANTS = [
    {"what": "Mappings.energy: leak cells dropped when per_tensor=True", "caught": True, "how": "energy:breakdown:missing"},
    {"what": "Mappings.latency: np.maximum over components replaced by +", "caught": True, "how": "latency:total"},
    {"what": "Mappings._get_cols: key matches column parts by prefix instead of equality", "caught": True,
     "how": "crash:ValueError (nested names make the prefix ambiguous; the call goes through must())"},
    {"what": "Mappings.resource_usage: np.maximum replaced by +", "caught": True, "how": "usage:max",
     "note": "survived the first version: final results carry ONE consolidated reservation column per memory, so max == sum on them; caught after adding the table copy with 3 reservation columns per memory"},
    {"what": "run_model: detailed <einsum><SEP>energy columns not multiplied by n_instances", "caught": True, "how": "energy:columns-vs-total"},
]
MANIFEST = {
    "level_text": "Every aggregation method of Mappings (energy under all 16 per_* combinations, actions under all 8, latency under all 4, resource_usage; list_if_one_mapping both ways; whole result set and single-row views) is compared per row with an independent re-aggregation of the raw <SEP> columns of the result table, and the raw per-Einsum columns are compared with the Total columns, on mapper results for N generated small specs. No counterexample found; not a proof.",
    "level_note": "Domain: results with breakdown columns (default eval_in_detail=True); 1-3 Einsums, Main/(Toll)/GLB/MAC, leak, n_instances, nested names. Trusted: the column grammar quoted in ASSUMPTIONS.",
    "technique": "property-based testing of real mapper output against an independent re-aggregation oracle (Hypothesis)",
}
