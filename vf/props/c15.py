"""C15 — compressing pmapping tables for joining loses no per-row detail.

Unit level (no mapper): Hypothesis builds, for 1-3 Einsums, 1-8 PmappingGroups each with its own
column set (joining columns: Total/reservation/tensor/fused_loop; non-joining columns prefixed with
the Einsum name: actions, energies, latencies, strides, mapping ids), then a "joined" frame whose
<einsum><SEP>compressed_index columns select arbitrary rows.  The oracle is a pure-Python lookup in
the descriptor: decompress(selected, compress(x)) must give every row exactly the non-joining cells
of the rows it names."""

import math
import uuid

from hypothesis import strategies as st

from vf.core import HarnessError, Violation, drive, hash32, must

PROPERTY = "C15"
LEVEL = "exploration"
RULE = (
    "Hypothesis-generated descriptors: 1-3 Einsums x 1-8 PmappingGroups x 1-40 rows; every group draws its own "
    "subset/order/dtypes of joining columns (Total, reservation, tensor, fused_loop) and of non-joining columns "
    "(<einsum><SEP>action/energy/latency/stride/n_iterations/usage/mapping; mapping ids are UUID objects or "
    "ints), arbitrary input index; then a joined frame (1-30 rows, RangeIndex or index with gaps) whose "
    "compressed_index columns pick (group, position) pairs: random, first/last of a group, repeated, all from one "
    "group. compress_einsum2pmappings is checked (row order, joining cells, unique compressed indices) and "
    "decompress_pmappings is compared cell by cell with the descriptor (NaN where the originating group lacks "
    "the column; no extra/suffixed/compressed_index column; row count, index and own columns unchanged). "
    "Non-trivial: some Einsum has >=2 groups, the selection touches >=2 of them and names the first or last row "
    "of a group. Distinct = distinct descriptor."
)
ASSUMPTIONS = [
    "non-joining columns are prefixed with their Einsum's name (as make_pmappings_from_templates / model.main "
    "produce them), so column names never collide between Einsums or with the joined frame",
    "every group has >= 1 row and an <einsum><SEP>mapping column; the joined frame has >= 1 row",
    "compressed-index columns of the joined frame hold int64 values taken from the compressed groups",
    "integers are < 2**40 (exact when a missing column forces float64 + NaN)",
]

MUTANTS = [
    {"what": "decompress_pmappings: `i < start_index` -> `i <= start_index`", "caught": True,
     "key": "crash:AssertionError, crash:StopIteration"},
    {"what": "_compress_pmapping_list: start_index += len(...) - 1 (overlapping compressed indices)", "caught": True,
     "key": "compress:index-not-unique"},
    {"what": "decompress_pmappings: iterate decompress.items() unreversed", "caught": True,
     "key": "crash:AssertionError"},
    {"what": "_compress: the last non-joining column is not stored in the decompress data (detail lost)",
     "caught": True, "key": "decompress:missing-column, decompress:wrong-cell"},
    {"what": "decompress_pmappings: chosen.index == i -> chosen.index == start_index (always first row of sub-table)",
     "caught": True, "key": "decompress:wrong-cell, decompress:row-count, crash:IntCastingNaNError"},
    {"what": "compress_einsum2pmappings: decompress data filed under name_order[arrival position] instead of the "
             "job's own Einsum name (wrong under permuted arrival order)", "caught": True,
     "key": "decompress:wrong-cell, decompress:extra-column, decompress:missing-column, crash:AssertionError"},
    {"what": "decompress_pmappings: sorted() removed around oset(...) of the selected indices", "caught": False,
     "note": "equivalent mutant: accelforge.util.oset iterates in sorted order by itself"},
]

SEP = "<SEP>"
EINSUM_NAMES = [["Matmul0", "QK", "E0"], ["Matmul1", "AV", "E1"], ["Matmul2", "FFA", "E2"]]
NONJOIN_SUFFIXES = [
    "action<SEP>MainMemory<SEP>T0<SEP>read",
    "action<SEP>MAC<SEP>None<SEP>compute",
    "energy<SEP>MainMemory<SEP>T0<SEP>read",
    "energy<SEP>GlobalBuffer<SEP>leak",
    "latency<SEP>MAC",
    "stride0",
    "stride1",
    "n_iterations<SEP>0",
    "usage<SEP>memory<SEP>GlobalBuffer<SEP>T0",
]
JOIN_NAMES = [
    "Total<SEP>energy",
    "Total<SEP>latency",
    "tensor<SEP>T1",
    "reservation<SEP>GlobalBuffer<SEP>0<SEP>right",
    "reservation<SEP>GlobalBuffer<SEP>1<SEP>right",
    "reservation<SEP>GlobalBuffer<SEP>1<SEP>left",
]
DTYPES = ["int64", "float32", "float64", "uint8"]


def _value(salt, c, r, dtype):
    h = hash32(salt, c, r)
    if dtype == "int64":
        return (h * 257 + r) % (2 ** 40)
    if dtype == "uint8":
        return h % 256
    if dtype == "float32":
        return (h % (2 ** 20)) / 1024.0
    if dtype == "float64":
        return (h % (2 ** 30)) / 4096.0
    if dtype == "uuid":
        return h * 1000003 + r          # becomes uuid.UUID(int=...) in check
    raise ValueError(dtype)


@st.composite
def cases(draw):
    n_e = draw(st.sampled_from([1, 2, 2, 3]))
    einsums = []
    for ei in range(n_e):
        name = draw(st.sampled_from(EINSUM_NAMES[ei]))
        n_g = draw(st.sampled_from([1, 2, 2, 3, 3, 4, 5, 8]))
        map_kind = draw(st.sampled_from(["uuid", "uuid", "int64"]))
        groups = []
        for gi in range(n_g):
            nrows = draw(st.sampled_from([1, 1, 2, 3, 4, 7, 16, 40]))
            salt = draw(st.integers(0, 10 ** 6))
            n_fused = draw(st.integers(0, 2))
            jmask = draw(st.integers(0, 2 ** len(JOIN_NAMES) - 1))
            nmask = draw(st.integers(0, 2 ** len(NONJOIN_SUFFIXES) - 1))
            names = [(n, True) for k, n in enumerate(JOIN_NAMES) if jmask >> k & 1]
            names += [(f"fused_loop{SEP}{name}{SEP}n_iterations{SEP}{k}", True) for k in range(n_fused)]
            names += [(f"{name}{SEP}{s}", False) for k, s in enumerate(NONJOIN_SUFFIXES) if nmask >> k & 1]
            names.append((f"{name}{SEP}mapping", False))
            names = draw(st.permutations(names))
            cols = []
            for ci, (cn, joining) in enumerate(names):
                if cn.endswith(SEP + "mapping"):
                    dt = map_kind
                else:
                    dt = DTYPES[hash32(salt, "dt", cn) % len(DTYPES)]
                cols.append({"name": cn, "joining": joining, "dtype": dt,
                             "values": [_value(salt, cn, r, dt) for r in range(nrows)]})
            groups.append({"index_start": draw(st.sampled_from([0, 0, 5, 74])), "n": nrows, "cols": cols})
        einsums.append({"name": name, "groups": groups})
    n_j = draw(st.sampled_from([1, 3, 5, 8, 8, 13, 30]))
    mode = draw(st.sampled_from(["random", "random", "random", "edges", "edges", "one-group", "repeat"]))
    picks = draw(st.lists(st.lists(st.tuples(st.integers(0, 7), st.integers(0, 39), st.integers(0, 3)),
                                   min_size=n_e, max_size=n_e), min_size=n_j, max_size=n_j))
    select = []
    for r, row in enumerate(picks):
        sel = []
        for ei, (gs, ps, edge) in enumerate(row):
            groups = einsums[ei]["groups"]
            if mode == "one-group":
                gs = picks[0][ei][0]
            if mode == "repeat" and r % 2:
                gs, ps, edge = picks[r - 1][ei]
            g = gs % len(groups)
            n = groups[g]["n"]
            if mode == "edges":
                edge = 1 + edge % 2
            p = 0 if edge == 1 else (n - 1 if edge == 2 else ps % n)
            sel.append([g, p])
        select.append(sel)
    jsalt = draw(st.integers(0, 10 ** 6))
    jcols = [{"name": "Total<SEP>energy", "dtype": "float64", "values": [_value(jsalt, "e", r, "float64") for r in range(n_j)]}]
    if draw(st.booleans()):
        jcols.append({"name": "Total<SEP>latency", "dtype": "int64", "values": [_value(jsalt, "l", r, "int64") for r in range(n_j)]})
    if draw(st.booleans()):
        jcols.append({"name": "reservation<SEP>GlobalBuffer<SEP>-1<SEP>right", "dtype": "float32",
                      "values": [_value(jsalt, "r", r, "float32") for r in range(n_j)]})
    index_kind = draw(st.sampled_from(["range", "range", "gaps", "offset"]))
    if index_kind == "range":
        jindex = list(range(n_j))
    elif index_kind == "offset":
        jindex = list(range(17, 17 + n_j))
    else:
        jindex = [3 * r + (hash32(jsalt, "i", r) % 3) for r in range(n_j)]
    ci_pos = draw(st.integers(0, len(jcols)))
    schedule = draw(st.sampled_from([None, 1, 2, 3]))
    return {"einsums": einsums, "schedule": schedule,
            "joined": {"cols": jcols, "index": jindex, "ci_pos": ci_pos, "select": select}}


# ---------------------------------------------------------------------------------------------

def _cell(dtype, v):
    return uuid.UUID(int=v) if dtype == "uuid" else v


def _frame(cols, index):
    import numpy as np
    import pandas as pd

    data = {}
    for c in cols:
        if c["dtype"] == "uuid":
            s = pd.Series([_cell("uuid", v) for v in c["values"]], index=index, dtype=object)
        else:
            s = pd.Series(np.array(c["values"], dtype=c["dtype"]), index=index)
        data[c["name"]] = s
    return pd.DataFrame(data, index=index, columns=[c["name"] for c in cols])


def _compat(fused_cols):
    from accelforge.frontend.mapping import TilePattern
    from accelforge.mapper.FFM._join_pmappings.compatibility import Compatibility, Loop, TensorReservation
    from accelforge.util._frozenset import fzs

    loops = tuple(
        Loop("M" if k % 2 == 0 else "N1",
             TilePattern(tile_shape=None, initial_tile_shape=None, calculated_n_iterations=c), False)
        for k, c in enumerate(fused_cols))
    return Compatibility(tensors=fzs([TensorReservation(loops=loops, name="T1", resource_name="GlobalBuffer")]),
                         reservation_indices=fzs([len(loops)]))


def _same(got, want):
    """exact cell equality (numeric compared as numbers, so 5 == 5.0)."""
    if isinstance(want, uuid.UUID):
        return isinstance(got, uuid.UUID) and got == want
    try:
        if got is None or (isinstance(got, float) and math.isnan(got)):
            return False
        return float(got) == float(want)
    except (TypeError, ValueError):
        return False


def _compress(e2p, schedule):
    """compress_einsum2pmappings either sequentially (one job at a time, as with n_jobs=1) or through the
    repo's verification hook ACCELFORGE_VERIF_SCHEDULE_SEED, which runs the per-Einsum jobs in-process on
    pickled copies (as a worker process would) and delivers their results in a seeded, permuted order."""
    import os
    import sys

    import accelforge.util  # noqa: F401  (accelforge.util.parallel the attribute is a function; take the module)
    par = sys.modules["accelforge.util.parallel"]
    from accelforge.mapper.FFM._join_pmappings.compress_pmappings import compress_einsum2pmappings

    if schedule is None:
        par.set_n_parallel_jobs(1)
        os.environ.pop("ACCELFORGE_VERIF_SCHEDULE_SEED", None)
        return compress_einsum2pmappings(e2p, print_progress=False)
    par.set_n_parallel_jobs(4)
    os.environ["ACCELFORGE_VERIF_SCHEDULE_SEED"] = str(schedule)
    par._VERIF_SCHEDULE_CALLS = 0          # the hook mixes a call counter into its seed: pin it per case
    try:
        return compress_einsum2pmappings(e2p, print_progress=False)
    finally:
        os.environ.pop("ACCELFORGE_VERIF_SCHEDULE_SEED", None)
        par.set_n_parallel_jobs(1)


def check(desc, col):
    import pandas as pd
    from accelforge.mapper.FFM._join_pmappings.compress_pmappings import decompress_pmappings
    from accelforge.mapper.FFM._join_pmappings.pmapping_dataframe import PmappingDataframe
    from accelforge.mapper.FFM._join_pmappings.pmapping_group import PmappingGroup
    from accelforge.mapper.FFM._pareto_df.df_convention import col_used_in_joining
    from accelforge.util._frozenset import oset

    einsums, joined = desc["einsums"], desc["joined"]
    select = joined["select"]

    # ---- classification (from the descriptor only) ---------------------------------
    nontrivial = False
    labels = [f"einsums:{len(einsums)}"]
    any_multi = touches2 = first_hit = last_hit = repeated = differ = missing = False
    for ei, e in enumerate(einsums):
        gs = e["groups"]
        picked = [tuple(row[ei]) for row in select]
        gset = {g for g, _ in picked}
        f_hit = any(p == 0 for g, p in picked)
        l_hit = any(p == gs[g]["n"] - 1 for g, p in picked)
        nj_sets = [frozenset(c["name"] for c in g["cols"] if not c["joining"]) for g in gs]
        any_multi |= len(gs) >= 2
        touches2 |= len(gset) >= 2
        first_hit |= f_hit
        last_hit |= l_hit
        repeated |= len(set(picked)) < len(picked)
        differ |= len(set(nj_sets)) >= 2
        missing |= len({nj_sets[g] for g in gset}) >= 2
        if len(gs) >= 2 and len(gset) >= 2 and (f_hit or l_hit):
            nontrivial = True
    labels += ["groups>=2" if any_multi else "groups=1",
               "sel:touches>=2groups" if touches2 else "sel:one-group",
               "sel:first-of-group" if first_hit else "sel:no-first",
               "sel:last-of-group" if last_hit else "sel:no-last",
               "sel:repeated-index" if repeated else "sel:all-distinct",
               "cols:differ-between-groups" if differ else "cols:same-in-all-groups",
               "expects-NaN-fill" if missing else "no-NaN-fill",
               "joined-index:" + ("range0" if joined["index"] == list(range(len(select))) else "gaps/offset"),
               "arrival:" + ("sequential" if desc.get("schedule") is None or len(einsums) == 1 else "permuted"),
               "mapping:" + "/".join(sorted({c["dtype"] for e in einsums for g in e["groups"] for c in g["cols"]
                                             if c["name"].endswith("<SEP>mapping")}))]
    col.case(desc, nontrivial, labels,
             sample={"einsums": [{"name": e["name"], "groups": [{"rows": g["n"], "columns": [c["name"] for c in g["cols"]]}
                                                                 for g in e["groups"]]} for e in einsums],
                     "select": select[:6], "joined_index": joined["index"][:6]})

    # ---- build the inputs --------------------------------------------------------
    e2p = {}
    for e in einsums:
        lst = []
        for g in e["groups"]:
            for c in g["cols"]:
                if bool(col_used_in_joining(c["name"])) != c["joining"]:
                    raise HarnessError(f"generator misclassified column {c['name']}")
            df = _frame(g["cols"], list(range(g["index_start"], g["index_start"] + g["n"])))
            fused = [c["name"] for c in g["cols"] if c["name"].startswith("fused_loop<SEP>")]
            pdf = PmappingDataframe(df, 1, 1, ignored_resources=oset(), drop_valid_reservations=False, skip_pareto=True)
            lst.append(PmappingGroup(_compat(fused), pdf))
        e2p[e["name"]] = lst

    compressed, ddata = must(_compress, e2p, desc.get("schedule"), what="compress_einsum2pmappings")

    # ---- compress side -------------------------------------------------------------
    if list(compressed.keys()) != [e["name"] for e in einsums]:
        raise Violation(f"compressed Einsum order {list(compressed)} != input order", key="compress:einsum-order")
    ci_of = {}                                   # (einsum idx, group, position) -> compressed index
    for ei, e in enumerate(einsums):
        cgroups = compressed[e["name"]]
        if len(cgroups) != len(e["groups"]):
            raise Violation(f"{e['name']}: {len(cgroups)} compressed groups for {len(e['groups'])} groups",
                            key="compress:group-count")
        seen = set()
        cicol = f"{e['name']}<SEP>compressed_index"
        for gi, (g, cg) in enumerate(zip(e["groups"], cgroups)):
            d = cg.mappings.data
            want_cols = [c["name"] for c in g["cols"] if c["joining"]]
            if len(d) != g["n"] or sorted(d.columns) != sorted(want_cols + [cicol]):
                raise Violation(
                    f"{e['name']} group {gi}: compressed table has {len(d)} rows / columns {list(d.columns)}; expected "
                    f"{g['n']} rows / joining columns {want_cols} + {cicol}", key="compress:shape")
            for c in g["cols"]:
                if c["joining"]:
                    got = d[c["name"]].tolist()
                    if not all(_same(a, b) for a, b in zip(got, c["values"])):
                        raise Violation(f"{e['name']} group {gi}: joining column {c['name']} changed by compression: "
                                        f"{got[:5]} vs {c['values'][:5]}", key="compress:joining-cell")
            idx = [int(x) for x in d[cicol].tolist()]
            for p, i in enumerate(idx):
                if i in seen:
                    raise Violation(f"{e['name']}: compressed index {i} is used by two pmapping rows "
                                    f"(group {gi} position {p})", key="compress:index-not-unique")
                seen.add(i)
                ci_of[(ei, gi, p)] = i

    # ---- the joined frame ----------------------------------------------------------
    n_j = len(select)
    jcols = [dict(c) for c in joined["cols"]]
    ci_cols = [{"name": f"{e['name']}<SEP>compressed_index", "dtype": "int64",
                "values": [ci_of[(ei, select[r][ei][0], select[r][ei][1])] for r in range(n_j)]}
               for ei, e in enumerate(einsums)]
    pos = joined["ci_pos"]
    all_cols = jcols[:pos] + ci_cols + jcols[pos:]
    jdf = _frame(all_cols, joined["index"])
    jp = PmappingDataframe(jdf, 1, 1, ignored_resources=oset(), drop_valid_reservations=False, skip_pareto=True)

    out = must(decompress_pmappings, jp, ddata, what="decompress_pmappings")
    res = out.data

    # ---- oracle: pure lookup in the descriptor ------------------------------------------
    if len(res) != n_j:
        raise Violation(f"decompressed frame has {len(res)} rows, joined frame had {n_j}", key="decompress:row-count")
    if list(res.index) != list(joined["index"]):
        raise Violation(f"decompressed index {list(res.index)[:8]} != joined index {joined['index'][:8]}",
                        key="decompress:index-changed")
    want_cols = [c["name"] for c in jcols]
    owner = {}
    for ei, e in enumerate(einsums):
        for g in sorted({row[ei][0] for row in select}):
            for c in e["groups"][g]["cols"]:
                if not c["joining"] and c["name"] not in owner:
                    owner[c["name"]] = ei
                    want_cols.append(c["name"])
    got_cols = list(res.columns)
    if len(set(got_cols)) != len(got_cols):
        raise Violation(f"duplicate columns after decompression: {got_cols}", key="decompress:duplicate-column")
    left = [c for c in got_cols if "compressed_index" in c]
    if left:
        raise Violation(f"compressed-index columns left after decompression: {left}", key="decompress:index-column-left")
    miss = [c for c in want_cols if c not in got_cols]
    if miss:
        raise Violation(f"columns of the selected pmapping rows missing after decompression: {miss}",
                        key="decompress:missing-column")
    extra = [c for c in got_cols if c not in want_cols]
    if extra:
        raise Violation(f"unexpected columns after decompression: {extra}", key="decompress:extra-column")
    for c in jcols:
        got = res[c["name"]].tolist()
        if not all(_same(a, b) for a, b in zip(got, c["values"])):
            raise Violation(f"joined column {c['name']} changed by decompression", key="decompress:joined-cell")
    for r in range(n_j):
        for ei, e in enumerate(einsums):
            g, p = select[r][ei]
            have = {c["name"]: _cell(c["dtype"], c["values"][p]) for c in e["groups"][g]["cols"] if not c["joining"]}
            for cn, own in owner.items():
                if own != ei:
                    continue
                got = res[cn].iloc[r]
                if cn in have:
                    if not _same(got, have[cn]):
                        raise Violation(
                            f"row {r}: {cn} = {got!r} but the pmapping it was built from ({e['name']} group {g} "
                            f"position {p}, compressed index {ci_of[(ei, g, p)]}) has {have[cn]!r}",
                            key="decompress:wrong-cell")
                elif not pd.isna(got):
                    raise Violation(
                        f"row {r}: {cn} = {got!r} but the originating group ({e['name']} group {g}) has no such column",
                        key="decompress:phantom-cell")


N = {"quick": 600, "thorough": 6000}
NSHARDS = 6


def shards(tier, seed):
    return [{"k": k, "n": N[tier] // NSHARDS, "seed": seed} for k in range(NSHARDS)]


def run_shard(shard, col):
    drive(cases(), check, n=shard["n"], seed=hash32(shard["seed"], "C15", shard["k"]), col=col)


def replay(desc, col):
    check(desc, col)


REGISTER = True
MANIFEST = {
    "level_text": "Random exploration at unit level: 600 (thorough 6000) generated lists of pmapping tables per run (1-3 Einsums, 1-8 groups, 1-40 rows, per-group column sets and dtypes) each with a generated selection pattern; the round trip compress -> select -> decompress is compared cell by cell with the generating descriptor. Not exhaustive: a counterexample outside the sampled shapes (e.g. >8 groups, >40 rows, empty groups, colliding column names) would be missed.",
    "level_note": "The joining step itself is not run: the joined frame is synthesised from the compressed indices that compress_einsum2pmappings assigned, which is exactly what joining carries along. Empty groups / empty joined frames are not generated (callers reject empty pmapping lists). Column order of the result is not asserted.",
    "technique": "property-based testing (Hypothesis) with a descriptor-lookup oracle (round trip)",
}
