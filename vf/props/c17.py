"""C17 — optima are consistent across metric combinations."""

from hypothesis import strategies as st

from vf.core import Violation, drive, hash32
from vf.gen import metamorph as MM

PROPERTY = "C17"
LEVEL = "exploration"
TOLERANCE = "rel 1e-5 (mapper computes in float32)"
RULE = (
    "Hypothesis-generated small specs (matmul / matvec / 2-matmul chain / 2 elementwise ops; rank bounds from "
    "{1,2,2,3,4,4,6}; Main+GLB, or Main+GLB+Reg for one Einsum; finite throughputs on every action, leak powers, "
    "GLB sized around the tensor sizes; half of the architectures use a fast-but-dear Main over a slow-but-cheap GLB so "
    "energy and latency pull apart; 1-bit values are avoided and capacities are n values + half a value, see vf/gen/spec.py). "
    "Each spec is mapped five times: metrics ENERGY, LATENCY, ENERGY|LATENCY, "
    "ENERGY_DELAY_PRODUCT with eval_in_detail on, and one drawn combination (those four or E|L|EDP) with eval_in_detail "
    "off. Oracle: feasibility is the same for all runs; min E over the E|L front == opt(E); min L over the front == "
    "opt(L); min E*L over the front == opt(EDP); every returned row of every run that carries the three columns has "
    "EDP == E*L; the detail-off run's optima equal the detail-on ones for whatever columns it reports. Non-trivial: the "
    "E|L front has >= 2 points. Distinct = distinct spec descriptor."
)
ASSUMPTIONS = [
    "optimum of a single-metric run = minimum of that column over the returned rows",
    "specs are restricted to 2 memory levels for 2 Einsums (3 for one Einsum) to keep a mapper run near one second",
]

METRICS = ["ENERGY", "LATENCY", "ENERGY|LATENCY", "ENERGY_DELAY_PRODUCT"]
EXTRA = METRICS + ["ENERGY|LATENCY|ENERGY_DELAY_PRODUCT"]


@st.composite
def cases(draw):
    spec = draw(MM.small_specs(shapes=("matmul", "chain2", "chain2", "matvec", "elementwise2")))
    return {"spec": spec, "nodetail": draw(st.sampled_from(EXTRA))}


def _edp_rows(run, what):
    for i, r in enumerate(run.rows):
        if {"energy", "latency", "edp"} <= set(r):
            if not MM.same(r["edp"], r["energy"] * r["latency"]):
                raise Violation(
                    f"{what}: row {i} reports energy_delay_product={r['edp']!r} but energy*latency="
                    f"{r['energy']!r}*{r['latency']!r}={r['energy'] * r['latency']!r}", key="edp-column!=E*L")


def _eq(a, b, msg, key):
    if not MM.same(a, b):
        raise Violation(f"{msg}: {a!r} vs {b!r} (rel err {MM.rel_err(a, b):.3g})", key=key)


def check(desc, col):
    spec = desc["spec"]
    runs = {m: MM.run(spec, metrics=m) for m in METRICS}
    nd_metrics = desc["nodetail"]
    nd = MM.run(spec, metrics=nd_metrics, eval_in_detail=False)
    feas = {m: r.feasible for m, r in runs.items()}
    feas["nodetail:" + nd_metrics] = nd.feasible
    labels = MM.shape_labels(spec) + [f"nodetail:{nd_metrics}"]
    if not any(feas.values()):
        col.case(spec, False, labels + ["infeasible"])
        return
    front = runs["ENERGY|LATENCY"]
    npts = len(front.rows)
    nontrivial = all(feas.values()) and npts >= 2
    e_opt_row = runs["ENERGY"].argbest("energy") if runs["ENERGY"].feasible else None
    labels += [f"front:{npts if npts < 4 else '4+'}"]
    if all(feas.values()):
        # does the latency optimum differ from the energy optimum (a real trade-off)?
        le = runs["LATENCY"].best("latency")
        labels.append("E-opt!=L-opt" if not MM.same(runs["ENERGY"].rows[e_opt_row]["latency"], le) else "E-opt==L-opt")
        fe = min(front.rows, key=lambda r: r["energy"] * r["latency"])
        labels.append("edp-opt:interior" if (npts >= 3 and fe is not min(front.rows, key=lambda r: r["energy"])
                                            and fe is not min(front.rows, key=lambda r: r["latency"])) else "edp-opt:corner")
    col.case(spec, nontrivial, labels,
             sample={"shape": spec["shape"], "bounds": spec["bounds"],
                     "front": sorted((r["energy"], r["latency"]) for r in front.rows)[:6] if front.feasible else None,
                     "optE": runs["ENERGY"].best("energy"), "optL": runs["LATENCY"].best("latency"),
                     "optEDP": runs["ENERGY_DELAY_PRODUCT"].best("edp")})
    if len(set(feas.values())) != 1:
        raise Violation(f"feasibility depends on the metrics: {feas}", key="feasibility-differs")

    for m, r in runs.items():
        _edp_rows(r, f"metrics={m}")
    _edp_rows(nd, f"metrics={nd_metrics} eval_in_detail=False")

    opt_e = runs["ENERGY"].best("energy")
    opt_l = runs["LATENCY"].best("latency")
    opt_edp = runs["ENERGY_DELAY_PRODUCT"].best("edp")
    _eq(min(r["energy"] for r in front.rows), opt_e, "min energy over the E|L front vs optimum of the ENERGY run", "front-minE!=optE")
    _eq(min(r["latency"] for r in front.rows), opt_l, "min latency over the E|L front vs optimum of the LATENCY run", "front-minL!=optL")
    _eq(min(r["energy"] * r["latency"] for r in front.rows), opt_edp,
        "min energy*latency over the E|L front vs optimum of the ENERGY_DELAY_PRODUCT run", "front-minEL!=optEDP")
    # the detail-off run reports only the objective columns; its optima must agree as well
    for name, ref in (("energy", opt_e), ("latency", opt_l), ("edp", opt_edp)):
        b = nd.best(name)
        if b is None:
            continue
        if name == "edp" and "ENERGY_DELAY_PRODUCT" not in nd_metrics:
            continue
        if name in ("energy", "latency") and nd_metrics == "ENERGY_DELAY_PRODUCT":
            continue
        _eq(b, ref, f"eval_in_detail=False metrics={nd_metrics}: best {name} vs optimum of the dedicated run", f"nodetail-{name}")


N = {"quick": 24, "thorough": 320}


def shards(tier, seed):
    return MM.deal([{} for _ in range(N[tier])], tier, seed)


def run_shard(shard, col):
    MM.run_slots(shard, col, "C17", lambda slot: cases(), check)


def replay(desc, col):
    check(desc, col)


REGISTER = True
QUICK_BUDGET_S = 600
THOROUGH_BUDGET_S = 3000
MUTANTS = [
    {"what": "join_pmappings._apply_edp_columns: energy_delay_product = energy + latency", "caught": True, "how": "edp-column!=E*L"},
    {"what": "make_tile_shapes._clean_energy_columns: leak energy left out of Total energy when LATENCY/EDP is not a metric (ENERGY-only run optimises dynamic energy)", "caught": True, "how": "front-minE!=optE, nodetail-energy"},
    {"what": "join_pmappings.OptimalityThresholder: a pmapping must beat a previous solution in ALL objectives (|= -> &=)", "caught": True, "how": "front-minL!=optL, front-minE!=optE, mapper-crash (5 keys)"},
    {"what": "fast_pareto 2-D sweep sorts the first column descending", "caught": True, "how": "front-minE!=optE, front-minL!=optL"},
]
MANIFEST = {
    "level_text": "Metamorphic testing of map_workload_to_arch: each generated small spec is mapped under ENERGY, LATENCY, ENERGY|LATENCY and ENERGY_DELAY_PRODUCT (plus one run with eval_in_detail off) and the optima must agree (front minima == single-metric optima, min E*L over the front == EDP optimum, EDP column == E*L on every row). No counterexample in N specs; not a proof.",
    "level_note": "1-2 Einsums, 2-3 memory levels, rank bounds <= 6, finite throughputs and leak. Optimum of a run = column minimum over returned rows. rel 1e-5.",
    "technique": "property-based metamorphic testing of the mapper (Hypothesis)",
}
