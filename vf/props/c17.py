"""C17 — optima are consistent across metric combinations."""

from hypothesis import strategies as st

from vf.core import Violation, drive, hash32
from vf.gen import metamorph as MM

PROPERTY = "C17"
LEVEL = "exploration"
TOLERANCE = "rel 1e-5 (mapper computes in float32)"
RULE = (
    "Hypothesis-generated small specs (matmul / matvec / 2-matmul chain / 2 elementwise ops; rank bounds from "
    "{1,2,2,3,4,4,6}; Main+GLB, or Main+GLB+Reg for one Einsum; finite throughputs on every action, leak powers, "
    "GLB sized around the tensor sizes; half of the architectures use a fast-but-dear Main over a slow-but-cheap GLB so "
    "energy and latency pull apart; 1-bit values are avoided and capacities are n values + half a value, see vf/gen/spec.py). "
    "Two slots in three come from a 'balanced' family instead: one or two matmuls (bounds 4-8, or 2-4 for two) on Main -> "
    "bypassable GLB -> MAC where Main's read and write energies differ by an order of magnitude, Main is fast and the GLB "
    "slow, so the energy-latency front has several points and its best energy x latency is often an interior point. "
    "Each spec is mapped five times: metrics ENERGY, LATENCY, ENERGY|LATENCY, "
    "ENERGY_DELAY_PRODUCT with eval_in_detail on, and one drawn combination (those four or E|L|EDP) with eval_in_detail "
    "off. Oracle: feasibility is the same for all runs; min E over the E|L front == opt(E); min L over the front == "
    "opt(L); min E*L over the front == opt(EDP); every returned row of every run that carries the three columns has "
    "EDP == E*L; the detail-off run's optima equal the detail-on ones for whatever columns it reports. Non-trivial: the "
    "E|L front has >= 2 points. Distinct = distinct spec descriptor."
)
ASSUMPTIONS = [
    "optimum of a single-metric run = minimum of that column over the returned rows",
    "specs are restricted to 2 memory levels for 2 Einsums (3 for one Einsum) to keep a mapper run near one second",
]

METRICS = ["ENERGY", "LATENCY", "ENERGY|LATENCY", "ENERGY_DELAY_PRODUCT"]
EXTRA = METRICS + ["ENERGY|LATENCY|ENERGY_DELAY_PRODUCT"]


@st.composite
def cases(draw):
    spec = draw(MM.small_specs(shapes=("matmul", "chain2", "chain2", "matvec", "elementwise2")))
    return {"spec": spec, "nodetail": draw(st.sampled_from(EXTRA))}


@st.composite
def balanced_cases(draw):
    """One or two matmuls on Main -> bypassable GLB -> MAC where reads and writes of Main cost very different energy,
    Main is fast and the GLB slow: holding a tensor in the GLB saves energy and costs time per tensor, so the
    energy-latency front has several points and its best energy x latency product is often an INTERIOR point
    (the plain families almost always have it at the latency corner)."""
    from vf.gen import spec as G

    two = draw(st.integers(0, 3)) == 0
    es, rvs = G.chain(2) if two else G.matmul_ab()
    pool = [2, 3, 4] if two else [4, 6, 6, 8, 8]
    bounds = {rv: draw(st.sampled_from(pool)) for rv in rvs}
    bits = draw(st.sampled_from([4, 8]))
    wl = {"einsums": es, "bounds": bounds}
    sizes = G.tensor_sizes(wl)
    big, tot = max(sizes.values()), sum(sizes.values())
    vals = draw(st.sampled_from([max(4, big // 4), max(4, big // 3), max(4, big // 2), big, tot // 2, "inf"]))
    dear, cheap = draw(st.sampled_from([32, 64, 100])), draw(st.sampled_from([2, 4, 8]))
    rd, wr = (cheap, dear) if draw(st.booleans()) else (dear, cheap)
    main_bw = draw(st.sampled_from([16, 32, 64]))
    glb_bw = draw(st.sampled_from([2, 4, 8]))
    nodes = [{"type": "Memory", "name": "Main", "size": "inf", "keep": "~Intermediates" if two else "All", "may_keep": "All",
              "read": [rd, main_bw], "write": [wr, main_bw], "leak": 0},
             {"type": "Memory", "name": "GLB", "size": "inf" if vals == "inf" else vals * bits + bits / 2,
              "keep": "~Main" if two else "Nothing", "may_keep": "All",
              "read": [draw(st.sampled_from([1, 2])), glb_bw], "write": [draw(st.sampled_from([1, 2])), glb_bw],
              "leak": draw(st.sampled_from([0, 0, 0.125]))},
             {"type": "Compute", "name": "MAC", "compute": [draw(st.sampled_from([1, 4])), draw(st.sampled_from([1, 2, 4]))], "leak": 0}]
    spec = {"shape": "chain2" if two else "matmul", "einsums": es, "bounds": bounds, "bits": {"All": bits}, "n_instances": 1,
            "nodes": nodes, "mapper": {}, "family": "balanced"}
    return {"spec": spec, "nodetail": draw(st.sampled_from(EXTRA))}


def _edp_rows(run, what):
    for i, r in enumerate(run.rows):
        if {"energy", "latency", "edp"} <= set(r):
            if not MM.same(r["edp"], r["energy"] * r["latency"]):
                raise Violation(
                    f"{what}: row {i} reports energy_delay_product={r['edp']!r} but energy*latency="
                    f"{r['energy']!r}*{r['latency']!r}={r['energy'] * r['latency']!r}", key="edp-column!=E*L")


def _eq(a, b, msg, key):
    if not MM.same(a, b):
        raise Violation(f"{msg}: {a!r} vs {b!r} (rel err {MM.rel_err(a, b):.3g})", key=key)


def check(desc, col):
    spec = desc["spec"]
    runs = {m: MM.run(spec, metrics=m) for m in METRICS}
    nd_metrics = desc["nodetail"]
    nd = MM.run(spec, metrics=nd_metrics, eval_in_detail=False)
    feas = {m: r.feasible for m, r in runs.items()}
    feas["nodetail:" + nd_metrics] = nd.feasible
    labels = MM.shape_labels(spec) + [f"nodetail:{nd_metrics}", f"family:{spec.get('family', 'plain')}"]
    if not any(feas.values()):
        col.case(spec, False, labels + ["infeasible"])
        return
    front = runs["ENERGY|LATENCY"]
    npts = len(front.rows)
    nontrivial = all(feas.values()) and npts >= 2
    e_opt_row = runs["ENERGY"].argbest("energy") if runs["ENERGY"].feasible else None
    labels += [f"front:{npts if npts < 4 else '4+'}"]
    if all(feas.values()):
        # does the latency optimum differ from the energy optimum (a real trade-off)?
        le = runs["LATENCY"].best("latency")
        labels.append("E-opt!=L-opt" if not MM.same(runs["ENERGY"].rows[e_opt_row]["latency"], le) else "E-opt==L-opt")
        fe = min(front.rows, key=lambda r: r["energy"] * r["latency"])
        labels.append("edp-opt:interior" if (npts >= 3 and fe is not min(front.rows, key=lambda r: r["energy"])
                                            and fe is not min(front.rows, key=lambda r: r["latency"])) else "edp-opt:corner")
    col.case(spec, nontrivial, labels,
             sample={"shape": spec["shape"], "bounds": spec["bounds"],
                     "front": sorted((r["energy"], r["latency"]) for r in front.rows)[:6] if front.feasible else None,
                     "optE": runs["ENERGY"].best("energy"), "optL": runs["LATENCY"].best("latency"),
                     "optEDP": runs["ENERGY_DELAY_PRODUCT"].best("edp")})
    if len(set(feas.values())) != 1:
        raise Violation(f"feasibility depends on the metrics: {feas}", key="feasibility-differs")

    for m, r in runs.items():
        _edp_rows(r, f"metrics={m}")
    _edp_rows(nd, f"metrics={nd_metrics} eval_in_detail=False")

    opt_e = runs["ENERGY"].best("energy")
    opt_l = runs["LATENCY"].best("latency")
    opt_edp = runs["ENERGY_DELAY_PRODUCT"].best("edp")
    _eq(min(r["energy"] for r in front.rows), opt_e, "min energy over the E|L front vs optimum of the ENERGY run", "front-minE!=optE")
    _eq(min(r["latency"] for r in front.rows), opt_l, "min latency over the E|L front vs optimum of the LATENCY run", "front-minL!=optL")
    _eq(min(r["energy"] * r["latency"] for r in front.rows), opt_edp,
        "min energy*latency over the E|L front vs optimum of the ENERGY_DELAY_PRODUCT run", "front-minEL!=optEDP")
    # the detail-off run reports only the objective columns; its optima must agree as well
    for name, ref in (("energy", opt_e), ("latency", opt_l), ("edp", opt_edp)):
        b = nd.best(name)
        if b is None:
            continue
        if name == "edp" and "ENERGY_DELAY_PRODUCT" not in nd_metrics:
            continue
        if name in ("energy", "latency") and nd_metrics == "ENERGY_DELAY_PRODUCT":
            continue
        _eq(b, ref, f"eval_in_detail=False metrics={nd_metrics}: best {name} vs optimum of the dedicated run", f"nodetail-{name}")


N = {"quick": 48, "thorough": 480}


def shards(tier, seed):
    # two slots in three draw from the balanced family (interior EDP optimum), one from the plain small specs
    return MM.deal([{"family": "plain" if i % 3 == 0 else "balanced"} for i in range(N[tier])], tier, seed)


def run_shard(shard, col):
    MM.run_slots(shard, col, "C17", lambda slot: balanced_cases() if slot.get("family") == "balanced" else cases(), check)


def replay(desc, col):
    check(desc, col)


REGISTER = True
QUICK_BUDGET_S = 600
THOROUGH_BUDGET_S = 3000
MUTANTS = [
    {"what": "join_pmappings._apply_edp_columns: energy_delay_product = energy + latency", "caught": True, "how": "edp-column!=E*L"},
    {"what": "make_tile_shapes._clean_energy_columns: leak energy left out of Total energy when LATENCY/EDP is not a metric (ENERGY-only run optimises dynamic energy)", "caught": True, "how": "front-minE!=optE, nodetail-energy"},
    {"what": "join_pmappings.OptimalityThresholder: a pmapping must beat a previous solution in ALL objectives (|= -> &=)", "caught": True, "how": "front-minL!=optL, front-minE!=optE, mapper-crash (5 keys)"},
    {"what": "fast_pareto 2-D sweep sorts the first column descending", "caught": True, "how": "front-minE!=optE, front-minL!=optL"},
]
MANIFEST = {
    "level_text": "Metamorphic testing of map_workload_to_arch: each generated small spec (two thirds from a balanced family whose energy-latency front often has an interior EDP optimum) is mapped under ENERGY, LATENCY, ENERGY|LATENCY and ENERGY_DELAY_PRODUCT (plus one run with eval_in_detail off) and the optima must agree (front minima == single-metric optima, min E*L over the front == EDP optimum, EDP column == E*L on every row). No counterexample in N specs; not a proof.",
    "level_note": "1-2 Einsums, 2-3 memory levels, rank bounds <= 6, finite throughputs and leak. Optimum of a run = column minimum over returned rows. rel 1e-5.",
    "technique": "property-based metamorphic testing of the mapper (Hypothesis)",
}
