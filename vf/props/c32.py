"""C32 — the parallel runner returns each job's result in job order."""

import json
import os
import sys

from hypothesis import strategies as st

from vf.core import HarnessError, Violation, drive, hash32
from vf.gen import pjobs

PROPERTY = "C32"
LEVEL = "exploration"
RULE = (
    "Hypothesis-generated job lists of length 0..64 (job = one of two module-level functions, positional or keyword "
    "arguments, payloads drawn from a small pool so that different jobs often carry equal payloads) run through "
    "accelforge.util.parallel.parallel with n_jobs 1..16 (passed or via set_n_parallel_jobs), list and dict inputs "
    "(int / str / tuple / mixed keys in a drawn non-sorted order), return_as in {None, generator, generator_unordered}, "
    "with and without pbar. Driver 'loky': real worker processes (one worker count per shard, 2..16, plus 1), each job sleeps a drawn 0..30 ms, completion order read "
    "from the jobs' end timestamps. Driver 'hook': ACCELFORGE_VERIF_SCHEDULE_SEED set to a drawn seed, completion "
    "order = the permutation the hook logs. Oracle: list/generator => result[i] is job i's value; dict => same keys in "
    "the same order, result[k] is jobs[k]'s value; generator_unordered => equal multisets. Non-trivial: >= 2 jobs, "
    "n_jobs >= 2 and the observed completion order differs from submission order. Distinct = distinct descriptor."
)
ASSUMPTIONS = [
    "job functions are module-level and picklable, results are plain data (what the mapper passes is richer but goes through the same index-tagging code)",
    "driver 'hook' trusts the committed hook in accelforge/util/parallel.py to deliver results in the permutation it logs",
    "a loky infrastructure failure (TerminatedWorkerError, BrokenProcessPool, OSError on spawn) is counted as rejected, not as a violation",
]

KEY_KINDS = ["int", "str", "tuple", "mixed"]
PAYLOADS = st.one_of(st.integers(-3, 3), st.sampled_from(["", "a", "ab"]), st.none(),
                     st.lists(st.integers(0, 2), max_size=3))


def _key(kind, v, pos):
    if kind == "mixed":
        kind = ["int", "str", "tuple"][pos % 3]
    if kind == "int":
        return v
    if kind == "str":
        return f"k{v}"
    return [v // 7, f"t{v % 7}"]          # JSON form of a tuple key


@st.composite
def cases(draw, driver, loky_n_jobs=4):
    n = draw(st.one_of(st.integers(0, 64), st.sampled_from([0, 1, 2, 3, 5, 64])))
    if driver == "loky":
        # one worker count per shard: resizing loky's reusable executor costs seconds, re-using it milliseconds
        n_jobs = draw(st.sampled_from([1] + [loky_n_jobs] * 7))
    else:
        n_jobs = draw(st.integers(1, 16))
    # dict jobs reference accelforge.util.parallel._dict_job, so every loky worker imports accelforge (seconds each):
    # real-worker dict cases only in the shards with <= 4 workers; the hook driver covers dict inputs at every n_jobs
    container = draw(st.sampled_from(["list", "list", "dict"] if driver == "hook" or loky_n_jobs <= 4 else ["list"]))
    d = {"driver": driver, "n_jobs": n_jobs, "n_jobs_via": draw(st.sampled_from(["arg", "arg", "global"])),
         "container": container, "pbar": draw(st.sampled_from([False, False, True]))}
    if container == "dict":
        kind = draw(st.sampled_from(KEY_KINDS))
        vals = draw(st.lists(st.integers(-50, 400), min_size=n, max_size=n, unique=True))
        d["key_kind"] = kind
        d["keys"] = [_key(kind, v, i) for i, v in enumerate(vals)]
        d["return_as"] = None
    else:
        d["return_as"] = draw(st.sampled_from([None, None, "generator", "generator_unordered"]))
    if driver == "hook":
        d["hook_seed"] = draw(st.integers(0, 999)) * 1000 + draw(st.integers(0, 999))
    jobs = []
    for _ in range(n):
        sleep = draw(st.integers(0, 30)) if driver == "loky" else 0
        jobs.append([draw(st.sampled_from(["echo", "echo", "twice"])), draw(PAYLOADS), sleep, draw(st.booleans())])
    d["jobs"] = jobs
    return d


def _tk(k):
    return tuple(k) if isinstance(k, list) else k


_ORDERS = {"loky": set(), "hook": set()}


def _val(r):
    """(index, payload) part of a job result as comparable JSON text"""
    try:
        return json.dumps([r[0], r[1]], sort_keys=True)
    except Exception:  # noqa: BLE001  (not a job's return value at all)
        return "<malformed> " + repr(r)[:80]


def check(desc, col):
    import accelforge  # noqa: F401
    from accelforge.util.parallel import delayed

    P = sys.modules["accelforge.util.parallel"]
    driver = desc["driver"]
    n = len(desc["jobs"])
    n_jobs = desc["n_jobs"]
    built = []
    for i, (fn, payload, sleep, kw) in enumerate(desc["jobs"]):
        f = pjobs.FUNCS[fn]
        built.append(delayed(f)(i, payload, sleep_ms=sleep) if kw else delayed(f)(i, payload, sleep))
    want = [json.dumps(list(pjobs.expected(fn, i, payload)), sort_keys=True)
            for i, (fn, payload, _, _) in enumerate(desc["jobs"])]
    is_dict = desc["container"] == "dict"
    keys = [_tk(k) for k in desc.get("keys", [])]
    arg = dict(zip(keys, built)) if is_dict else built
    if is_dict and len(arg) != n:
        raise HarnessError("generator produced duplicate dict keys")

    saved = (P.N_PARALLEL_PROCESSES, P.PARALLELIZE)
    old_env = os.environ.pop("ACCELFORGE_VERIF_SCHEDULE_SEED", None)
    if driver == "hook":
        os.environ["ACCELFORGE_VERIF_SCHEDULE_SEED"] = str(desc["hook_seed"])
        P._VERIF_SCHEDULE_CALLS = 0           # the permutation is a function of (seed, call index)
        del P._VERIF_SCHEDULE_LOG[:]
    crash = None
    infra = None
    got = None
    try:
        kwargs = {"return_as": desc["return_as"], "pbar": "c32" if desc["pbar"] else None}
        if desc["n_jobs_via"] == "global":
            P.set_n_parallel_jobs(n_jobs)
        else:
            kwargs["n_jobs"] = n_jobs
        try:
            got = P.parallel(arg, **kwargs)
            if not is_dict:
                got = list(got)
        except Exception as e:  # noqa: BLE001
            name = type(e).__name__
            if driver == "loky" and (name in ("TerminatedWorkerError", "BrokenProcessPool") or isinstance(e, (OSError, MemoryError))):
                infra = f"{name}: {e}"
            else:
                import traceback
                crash = (name, f"{e}\n{traceback.format_exc(limit=5)}")
    finally:
        P.N_PARALLEL_PROCESSES, P.PARALLELIZE = saved
        os.environ.pop("ACCELFORGE_VERIF_SCHEDULE_SEED", None)
        if old_env is not None:
            os.environ["ACCELFORGE_VERIF_SCHEDULE_SEED"] = old_env
    if infra:
        col.reject("loky-infrastructure")
        col.label("infra:" + infra[:60])
        return

    # ---- observed completion order ----------------------------------------------------------
    multi = n >= 2 and n_jobs >= 2
    order = None
    if driver == "hook":
        log = list(P._VERIF_SCHEDULE_LOG)
        if multi and crash is None and len(log) != 1:
            raise HarnessError(f"schedule hook logged {len(log)} calls for one multi-worker parallel() call")
        if log:
            order = list(log[-1])
    elif crash is None:
        rs = list(got.values()) if is_dict and isinstance(got, dict) else (got if isinstance(got, list) else [])
        try:
            ts = sorted((r[2], r[0]) for r in rs)
            order = [i for _, i in ts]
        except Exception:  # noqa: BLE001  (malformed results: the oracle below reports them)
            order = None
    permuted = bool(multi and order is not None and order != sorted(order))
    if permuted:
        _ORDERS[driver].add(tuple(order))
        col.extra[f"distinct_completion_orders_{driver}_summed_over_shards"] = len(_ORDERS[driver])
    mode = "dict:" + desc["key_kind"] if is_dict else "list:" + str(desc["return_as"])
    labels = [f"driver:{driver}", f"mode:{mode}", "pbar" if desc["pbar"] else "nopbar",
              "n:" + ("0" if n == 0 else "1" if n == 1 else "2-8" if n <= 8 else "9-32" if n <= 32 else "33-64"),
              "n_jobs:" + ("1" if n_jobs == 1 else "2-4" if n_jobs <= 4 else "5-16"), f"via:{desc['n_jobs_via']}",
              f"{driver}:order-" + ("permuted" if permuted else "identity" if multi else "sequential-path")]
    col.case(desc, permuted, labels,
             sample={"driver": driver, "mode": mode, "n": n, "n_jobs": n_jobs, "completion_order": order[:12] if order else None})

    if crash:
        raise Violation(f"parallel() raised {crash[0]}: {crash[1]} (mode {mode}, n={n}, n_jobs={n_jobs}, driver {driver})",
                        key=f"crash:{crash[0]}")
    where = f"mode {mode}, n={n}, n_jobs={n_jobs}, driver {driver}, completion order {order[:16] if order else None}"
    if is_dict:
        if not isinstance(got, dict):
            raise Violation(f"dict input returned {type(got).__name__} ({where})", key="dict:type")
        gk = list(got.keys())
        if gk != keys:
            kind = "key-set" if sorted(map(repr, gk)) != sorted(map(repr, keys)) else "key-order"
            raise Violation(f"dict input: returned keys {gk[:8]} != input keys {keys[:8]} ({kind}; {where})", key=f"dict:{kind}")
        for pos, k in enumerate(keys):
            if _val(got[k]) != want[pos]:
                raise Violation(f"dict input: result[{k!r}] = {_val(got[k])}, job {pos} returns {want[pos]} ({where})",
                                key="dict:wrong-value")
        return
    if len(got) != n:
        raise Violation(f"{len(got)} results for {n} jobs ({where})", key="list:length")
    vals = [_val(r) for r in got]
    if desc["return_as"] == "generator_unordered":
        if sorted(vals) != sorted(want):
            raise Violation(f"unordered results are not the multiset of job results: got {sorted(vals)[:6]} want {sorted(want)[:6]} ({where})",
                            key="unordered:multiset")
        return
    for i in range(n):
        if vals[i] != want[i]:
            raise Violation(f"result[{i}] = {vals[i]}, job {i} returns {want[i]} ({where})", key="list:wrong-position")


N = {"quick": {"loky": (4, 20), "hook": (4, 300)}, "thorough": {"loky": (8, 50), "hook": (8, 1500)}}
LOKY_N_JOBS = [2, 4, 8, 16, 3, 5, 6, 12]


def shards(tier, seed):
    out = []
    for driver, (ns, n) in N[tier].items():
        out += [{"k": k, "driver": driver, "n": n, "seed": seed, "loky_n_jobs": LOKY_N_JOBS[k % len(LOKY_N_JOBS)]}
                for k in range(ns)]
    return out


def run_shard(shard, col):
    drive(cases(shard["driver"], shard.get("loky_n_jobs", 4)), check, n=shard["n"],
          seed=hash32(shard["seed"], "C32", shard["driver"], shard["k"]), col=col)


def replay(desc, col):
    check(desc, col)


REGISTER = True
QUICK_BUDGET_S = 300
THOROUGH_BUDGET_S = 900
MUTANTS = [
    {"what": "parallel(): results[i] = result -> results.append(result)", "caught": True, "how": "list:length"},
    {"what": "parallel() dict path: return result without re-keying by the input dict (key order = arrival order)", "caught": True, "how": "dict:key-order (hook driver, permuted arrival)"},
    {"what": "parallel(): enumerate(jobs) -> enumerate(jobs, 1)", "caught": True, "how": "crash:IndexError"},
    {"what": "parallel(): results[i] = result -> results[i - 1] = result (rotation, same length)", "caught": True, "how": "list:wrong-position"},
]
MANIFEST = {
    "level_text": "Property-based testing of accelforge.util.parallel.parallel on generated job lists/dicts with real loky workers (random sleeps, true nondeterministic completion) and with the seeded completion-order hook (drawn permutations): every result must sit at its job's index / key, key order preserved, unordered mode returns the right multiset. No counterexample in N generated job lists; not a proof.",
    "level_note": "Job functions are module-level with plain-data results. The hook driver trusts the hook's logged permutation; the loky driver's completion order is read from job end timestamps.",
    "technique": "property-based testing with controlled (hook) and real (loky) schedules (Hypothesis)",
}
