"""C23 -- concise Einsum notation is equivalent to the verbose form.

Valid cases: a random Einsum (1-4 inputs, 1-4 ranks per tensor, shorthand ``m`` and
explicit ``Rank: a*x+b*y+c`` entries, random whitespace, optional extra attributes) is
written once as the concise string (bare string or ``{einsum: ..., extras}``) and once as
the documented verbose dictionary; ``Workload(einsums=[...])`` of both must agree on the
Einsum name, tensor names (in order), projections (rank order and expressions, whitespace
removed), output flags, the extras, and finally on the whole ``model_dump()``.

Malformed cases: strings / entries from explicit classes (each malformed by construction);
``Workload(einsums=[s])`` must raise.
"""

import re

from hypothesis import strategies as st

from vf.core import Violation, drive, must, hash32

PROPERTY = "C23"
LEVEL = "exploration"
RULE = (
    "Hypothesis. valid: 1-4 input tensors + output, 1-4 unique ranks per tensor, each entry shorthand (var) or explicit "
    "(Rank: sum of 1-3 terms coef*var plus optional constant), whitespace (none/space/two spaces/tab) drawn per token gap, "
    "bare string or {einsum: str} entry with optional extras (is_copy_operation, n_instances, per-tensor bits_per_value/"
    "persistent/backing_storage_size_scale, renames in dict or list form, explicit name); compared field by field and by "
    "model_dump with the verbose dictionary. malformed: one of 32 explicit classes derived from a valid string. "
    "zero-rank tensors (no concise syntax) are generated in a non-asserting class. Non-trivial (valid): >=1 explicit "
    "'Rank: expr' entry and >=2 inputs; (malformed): every case. Distinct = distinct descriptor."
)
ASSUMPTIONS = [
    "tensor names are unique within an Einsum and the output tensor is not also an input (the parser keys accesses by name)",
    "operands on the right-hand side are separated by '*' as in the documentation",
    "rank variables / rank names are taken from pools that avoid the ISL operator words (EQ, NE, LT, GT, LE, GE, NG, NL, AND, OR)",
    "the verbose form lists inputs first and the output last, as every documented example does",
    "zero-rank tensors (A[]) are not asserted either way: the concise grammar has no syntax for them",
]

VARS = ["m", "n", "k", "p", "r", "h", "b", "d", "n0", "n1", "ab", "x_y", "q2"]
RANKS = ["M", "N", "K", "P", "R", "H", "W", "N0", "N1", "Mx", "A_b", "Q2", "Rank3"]
TENSORS = ["A", "B", "C", "W", "I", "Out", "T0", "T1", "x", "in_a", "_t", "Q2", "WV", "I_in"]
WS = ["", " ", "  ", "\t"]

KNOWN = {
    "duplicate-rank:explicit-then-shorthand": "malformed-accepted:duplicate-rank:explicit-then-shorthand",
    "empty-expression": "malformed-accepted:empty-expression",
    "rhs-unclosed-bracket": "malformed-accepted:rhs-unclosed-bracket",
}
KNOWN_NAME = "explicit-einsum-name-overwritten"


@st.composite
def entries(draw, n):
    used, out = set(), []
    for _ in range(n):
        if draw(st.integers(0, 2)) == 0:
            rank = draw(st.sampled_from([r for r in RANKS if r not in used]))
            nterms = draw(st.integers(1, 3))
            vs = draw(st.lists(st.sampled_from(VARS), min_size=nterms, max_size=nterms, unique=True))
            terms = [[draw(st.sampled_from([1, 1, 2, 3])), v] for v in vs]
            const = draw(st.sampled_from([0, 0, 1, 2]))
            used.add(rank)
            out.append(["e", rank, terms, const])
        else:
            v = draw(st.sampled_from([v for v in VARS if v.upper() not in used]))
            used.add(v.upper())
            out.append(["s", v])
    return out


@st.composite
def valid_cases(draw, zero_rank=False):
    n_in = draw(st.integers(1, 4))
    names = draw(st.lists(st.sampled_from(TENSORS), min_size=n_in + 1, max_size=n_in + 1, unique=True))
    tensors = [{"name": nm, "entries": draw(entries(draw(st.integers(1, 4))))} for nm in names]
    if zero_rank:
        tensors[draw(st.integers(0, n_in))]["entries"] = []
    desc = {"kind": "valid", "inputs": tensors[:-1], "out": tensors[-1],
            "ws": draw(st.lists(st.integers(0, 3), min_size=1, max_size=12)) if draw(st.booleans()) else [draw(st.sampled_from([0, 1]))],
            "verbose_list_form": draw(st.booleans()), "form": draw(st.sampled_from(["string", "string", "einsum-key"])),
            "extras": None}
    if desc["form"] == "einsum-key" and draw(st.integers(0, 3)) > 0:
        ex = {}
        if n_in == 1 and draw(st.booleans()):
            ex["is_copy_operation"] = True
        elif draw(st.booleans()):
            ex["is_copy_operation"] = False
        if draw(st.booleans()):
            ex["n_instances"] = draw(st.integers(1, 5))
        per = {}
        for t in draw(st.lists(st.sampled_from(names), max_size=2, unique=True)):
            a = {}
            if draw(st.booleans()):
                a["bits_per_value"] = draw(st.sampled_from([4, 8, 16]))
            if draw(st.booleans()):
                a["persistent"] = True
            if draw(st.integers(0, 3)) == 0:
                a["backing_storage_size_scale"] = 2.0
            per[t] = a
        if per:
            ex["tensor"] = per
        if draw(st.booleans()):
            rn = [[n, s] for n, s in zip(["input", "weight", "output"], [names[0], "Inputs - " + names[0], "Outputs"])]
            rn = rn[: draw(st.integers(1, 3))]
            ex["renames"] = {"form": draw(st.sampled_from(["dict", "list"])), "items": rn}
        if draw(st.integers(0, 5)) == 0:
            ex["name"] = "Layer_" + names[-1]
        desc["extras"] = ex
    return desc


MALFORMED = [
    "no-equals", "colon-for-equals", "two-equals", "double-equals", "empty", "blank",
    "lhs-no-brackets", "lhs-no-name", "lhs-digit-name", "lhs-trailing-junk", "lhs-two-brackets",
    "no-input:nothing", "no-input:number", "no-input:bare-name", "no-input:parentheses",
    "empty-entry:middle", "empty-entry:trailing", "empty-entry:leading",
    "uppercase-shorthand", "lowercase-rank-name", "three-part-entry",
    "duplicate-rank:explicit-explicit", "duplicate-rank:shorthand-then-explicit", "duplicate-rank:explicit-then-shorthand",
    "shorthand-expression", "bad-rank-name", "empty-expression", "rhs-unclosed-bracket",
    "extra:respecifies-projection", "extra:respecifies-output", "extra:unknown-tensor", "extra:missing-name",
]


@st.composite
def cases(draw):
    k = draw(st.integers(0, 19))
    if k < 11:
        return draw(valid_cases())
    if k == 11:
        d = draw(valid_cases(zero_rank=True))
        d["kind"] = "zero-rank"
        d["extras"] = None
        return d
    base = draw(valid_cases())
    base["extras"] = None
    # sampled_from favours early elements; hash a wide integer instead so the 32 classes come out evenly
    cls = MALFORMED[hash32("cls", draw(st.integers(0, 1 << 20)), draw(st.integers(0, 1 << 20)), draw(st.integers(0, 999))) % len(MALFORMED)]
    return {"kind": "malformed", "cls": cls, "base": base,
            "where": draw(st.integers(0, 7)), "pick": draw(st.integers(0, 7))}


# ---------------------------------------------------------------------------------------
# rendering
# ---------------------------------------------------------------------------------------

class _Ws:
    def __init__(self, ws):
        self.ws, self.i = ws, 0

    def __call__(self):
        w = WS[self.ws[self.i % len(self.ws)]]
        self.i += 1
        return w


def _expr(terms, const, g):
    parts = []
    for c, v in terms:
        parts.append(v if c == 1 else f"{c}{g()}*{g()}{v}")
    if const:
        parts.append(str(const))
    out = parts[0]
    for p in parts[1:]:
        out += f"{g()}+{g()}{p}"
    return out


def _entry(e, g):
    if e[0] == "s":
        return e[1]
    return f"{e[1]}{g()}:{g()}{_expr(e[2], e[3], g)}"


def _tensor(t, g, entry_strings=None):
    es = entry_strings if entry_strings is not None else [_entry(e, g) for e in t["entries"]]
    inner = f"{g()},{g()}".join(es)
    return f"{t['name']}{g()}[{g()}{inner}{g()}]"


def concise(desc, g=None, out_entries=None, in_entries=None):
    g = g or _Ws(desc["ws"])
    lhs = _tensor(desc["out"], g, out_entries)
    rhs = f"{g()}*{g()}".join(_tensor(t, g, in_entries.get(i) if in_entries else None) for i, t in enumerate(desc["inputs"]))
    return f"{g()}{lhs}{g()}={g()}{rhs}{g()}"


def _nows(s):
    return re.sub(r"\s+", "", s)


def expected_projection(t):
    """Documented meaning: shorthand v -> rank V; explicit Rank: expr."""
    nog = lambda: ""  # noqa: E731
    return [[e[1].upper(), e[1]] if e[0] == "s" else [e[1], _expr(e[2], e[3], nog)] for e in t["entries"]]


def verbose(desc):
    tas = []
    for t, out in [(t, False) for t in desc["inputs"]] + [(desc["out"], True)]:
        if all(e[0] == "s" for e in t["entries"]) and desc["verbose_list_form"]:
            proj = [e[1] for e in t["entries"]]
        else:
            proj = {k: v for k, v in expected_projection(t)}
        ta = {"name": t["name"], "projection": proj}
        if out:
            ta["output"] = True
        tas.append(ta)
    d = {"name": desc["out"]["name"], "tensor_accesses": tas}
    ex = desc["extras"] or {}
    for k in ("is_copy_operation", "n_instances"):
        if k in ex:
            d[k] = ex[k]
    for ta in tas:
        ta.update(ex.get("tensor", {}).get(ta["name"], {}))
    if "renames" in ex:
        d["renames"] = _renames(ex["renames"])
    if "name" in ex:
        d["name"] = ex["name"]
    return d


def _renames(r):
    if r["form"] == "dict":
        return {n: s for n, s in r["items"]}
    return [{"name": n, "source": s, "expected_count": 1} for n, s in r["items"]]


def concise_entry(desc):
    s = concise(desc)
    if desc["form"] == "string":
        return s
    d = {"einsum": s}
    ex = desc["extras"] or {}
    for k in ("is_copy_operation", "n_instances", "name"):
        if k in ex:
            d[k] = ex[k]
    if "tensor" in ex:
        d["tensor_accesses"] = [{"name": t, **a} for t, a in ex["tensor"].items()]
    if "renames" in ex:
        d["renames"] = _renames(ex["renames"])
    return d


def malformed_entry(desc):
    """Build the malformed string/entry for a class; every result is malformed by construction."""
    base, cls, where, pick = desc["base"], desc["cls"], desc["where"], desc["pick"]
    good = concise(base)
    g = _Ws(base["ws"])
    A, B = base["out"]["name"], base["inputs"][0]["name"]
    rhs = good.split("=", 1)[1]
    lhs = good.split("=", 1)[0]
    # the tensor whose projection gets broken: output or one of the inputs
    tidx = where % (len(base["inputs"]) + 1)
    target = base["out"] if tidx == len(base["inputs"]) else base["inputs"][tidx]
    ents = [_entry(e, g) for e in target["entries"]]
    used = {(e[1].upper() if e[0] == "s" else e[1]) for e in target["entries"]}
    fresh_var = next(v for v in VARS if v.upper() not in used)
    fresh_rank = next(r for r in RANKS if r not in used)

    def with_entries(new):
        if tidx == len(base["inputs"]):
            return concise(base, out_entries=new)
        return concise(base, in_entries={tidx: new})

    pos = pick % (len(ents) + 1)
    if cls == "no-equals":
        return good.replace("=", " ")
    if cls == "colon-for-equals":
        return good.replace("=", ":")
    if cls == "two-equals":
        return good + " = " + _tensor(base["inputs"][0], g)
    if cls == "double-equals":
        return good.replace("=", "==")
    if cls == "empty":
        return ""
    if cls == "blank":
        return WS[1 + pick % 3] * (1 + where % 3)
    if cls == "lhs-no-brackets":
        return f"{A} ={rhs}"
    if cls == "lhs-no-name":
        return lhs[lhs.index("["):] + "=" + rhs
    if cls == "lhs-digit-name":
        return f"{1 + pick}" + good.lstrip()
    if cls == "lhs-trailing-junk":
        return lhs.rstrip() + "x =" + rhs
    if cls == "lhs-two-brackets":
        return lhs.rstrip() + f"[{fresh_var}] =" + rhs
    if cls == "no-input:nothing":
        return lhs + "=" + WS[pick % 4]
    if cls == "no-input:number":
        return lhs + f"= {pick + 1}"
    if cls == "no-input:bare-name":
        return lhs + f"= {B}"
    if cls == "no-input:parentheses":
        return lhs + "=" + rhs.replace("[", "(").replace("]", ")")
    if cls == "empty-entry:middle":
        if len(ents) >= 2:
            mid = 1 + pick % (len(ents) - 1)
            return with_entries(ents[:mid] + [g()] + ents[mid:])
        return with_entries([ents[0], g(), fresh_var])
    if cls == "empty-entry:trailing":
        return with_entries(ents + [g()])
    if cls == "empty-entry:leading":
        return with_entries([g()] + ents)
    if cls == "uppercase-shorthand":
        new = list(ents)
        new.insert(pos, fresh_rank if pick % 2 else fresh_var.upper())
        return with_entries(new)
    if cls == "lowercase-rank-name":
        new = list(ents)
        new.insert(pos, f"{fresh_var}{g()}:{g()}{VARS[pick % len(VARS)]}")
        return with_entries(new)
    if cls == "three-part-entry":
        new = list(ents)
        new.insert(pos, f"{fresh_rank}{g()}:{g()}{VARS[pick % len(VARS)]}{g()}:{g()}{VARS[(pick + 1) % len(VARS)]}")
        return with_entries(new)
    if cls == "duplicate-rank:explicit-explicit":
        return with_entries(ents + [f"{fresh_rank}:{VARS[pick % len(VARS)]}", f"{fresh_rank}{g()}:{g()}{VARS[(pick + 3) % len(VARS)]}"])
    if cls == "duplicate-rank:shorthand-then-explicit":
        return with_entries(ents + [fresh_var, f"{fresh_var.upper()}{g()}:{g()}{VARS[pick % len(VARS)]}"])
    if cls == "duplicate-rank:explicit-then-shorthand":
        other = next(v for v in VARS if v != fresh_var)
        return with_entries(ents + [f"{fresh_var.upper()}{g()}:{g()}{other}", fresh_var])
    if cls == "shorthand-expression":
        new = list(ents)
        new.insert(pos, f"{fresh_var}{g()}+{g()}{1 + pick % 3}")
        return with_entries(new)
    if cls == "bad-rank-name":
        bad = [f"1{fresh_rank}", f"{fresh_rank}-x", f"{fresh_rank}.y", f"{fresh_rank}+1"][pick % 4]
        new = list(ents)
        new.insert(pos, f"{bad}:{fresh_var}")
        return with_entries(new)
    if cls == "empty-expression":
        new = list(ents)
        new.insert(pos, f"{fresh_rank}{g()}:{g()}")
        return with_entries(new)
    if cls == "rhs-unclosed-bracket":
        s = good.rstrip()
        assert s.endswith("]")
        return s[:-1]
    tname = base["inputs"][where % len(base["inputs"])]["name"]
    if cls == "extra:respecifies-projection":
        return {"einsum": good, "tensor_accesses": [{"name": tname, "projection": ["m"]}]}
    if cls == "extra:respecifies-output":
        return {"einsum": good, "tensor_accesses": [{"name": tname, "output": bool(pick % 2)}]}
    if cls == "extra:unknown-tensor":
        unknown = next(t for t in TENSORS if t not in [x["name"] for x in base["inputs"]] + [A])
        return {"einsum": good, "tensor_accesses": [{"name": unknown, "bits_per_value": 8}]}
    if cls == "extra:missing-name":
        return {"einsum": good, "tensor_accesses": [{"bits_per_value": 8}]}
    raise AssertionError(cls)


# ---------------------------------------------------------------------------------------
# check
# ---------------------------------------------------------------------------------------

def _wl(entry):
    from accelforge.frontend.workload import Workload
    import copy

    return Workload(einsums=[copy.deepcopy(entry)])


def _view(e):
    return {
        "name": e.name,
        "tensors": [t.name for t in e.tensor_accesses],
        "projections": [[[k, _nows(v)] for k, v in t.projection.items()] for t in e.tensor_accesses],
        "outputs": [bool(t.output) for t in e.tensor_accesses],
        "bits_per_value": [t.bits_per_value for t in e.tensor_accesses],
        "persistent": [bool(t.persistent) for t in e.tensor_accesses],
        "scale": [t.backing_storage_size_scale for t in e.tensor_accesses],
        "is_copy_operation": e.is_copy_operation,
        "n_instances": e.n_instances,
        "renames": [[r.name, r.source, r.expected_count] for r in e.renames],
    }


def _norm_dump(w):
    d = w.model_dump()
    for e in d["einsums"]:
        for t in e["tensor_accesses"]:
            t["projection"] = [[k, _nows(v)] for k, v in t["projection"].items()]
    return d


def check(desc, col):
    if desc["kind"] == "malformed":
        entry = malformed_entry(desc)
        col.case(desc, True, labels=["malformed", "malformed:" + desc["cls"]],
                 sample={"class": desc["cls"], "entry": entry})
        try:
            w = _wl(entry)
        except Exception as ex:  # noqa: BLE001 - rejection (any error) is what the property asks for
            col.label("rejected-with:" + type(ex).__name__)
            return
        got = _view(w.einsums[0])
        raise Violation(f"malformed Einsum entry ({desc['cls']}) accepted: {entry!r} -> tensors {got['tensors']} "
                        f"projections {got['projections']}", key=KNOWN.get(desc["cls"], "malformed-accepted:" + desc["cls"]))

    n_explicit = sum(1 for t in desc["inputs"] + [desc["out"]] for e in t["entries"] if e[0] == "e")
    if desc["kind"] == "zero-rank":
        entry = concise_entry(desc)
        col.case(desc, False, labels=["zero-rank (not asserted)"])
        try:
            _wl(entry)
            col.label("zero-rank:accepted")
        except Exception as ex:  # noqa: BLE001
            col.label("zero-rank:rejected-with:" + type(ex).__name__)
        return

    entry = concise_entry(desc)
    ex = desc["extras"] or {}
    labels = ["valid", f"inputs:{len(desc['inputs'])}", f"form:{desc['form']}",
              "explicit-entries:" + ("0" if n_explicit == 0 else "1" if n_explicit == 1 else "2+"),
              "whitespace:" + ("varied" if len(set(desc["ws"])) > 1 else ["none", "single"][min(desc["ws"][0], 1)])]
    labels += [f"extra:{k}" for k in ex]
    if any(len(e[2]) >= 2 for t in desc["inputs"] + [desc["out"]] for e in t["entries"] if e[0] == "e"):
        labels.append("multi-variable-expression")
    if any(all(e[0] == "s" for e in t["entries"]) for t in desc["inputs"] + [desc["out"]]) and desc["verbose_list_form"]:
        labels.append("verbose-uses-list-projection")
    nontrivial = n_explicit >= 1 and len(desc["inputs"]) >= 2
    col.case(desc, nontrivial, labels, sample={"concise": entry, "verbose": verbose(desc)})

    wc = must(_wl, entry, what=f"Workload(einsums=[{entry!r}])")
    wv = must(_wl, verbose(desc), what="Workload(einsums=[verbose dict])")
    c, v = _view(wc.einsums[0]), _view(wv.einsums[0])
    # the verbose side must itself say what the descriptor says (guards the oracle)
    want_proj = [[[k, _nows(x)] for k, x in expected_projection(t)] for t in desc["inputs"] + [desc["out"]]]
    if v["projections"] != want_proj or v["tensors"] != [t["name"] for t in desc["inputs"]] + [desc["out"]["name"]]:
        raise Violation(f"verbose form parsed unexpectedly: {v} from {verbose(desc)}", key="verbose-form")
    for field in ("tensors", "projections", "outputs", "name", "bits_per_value", "persistent", "scale", "is_copy_operation",
                  "n_instances", "renames"):
        if c[field] != v[field]:
            if field == "name" and "name" in ex and c["name"] == desc["out"]["name"]:
                raise Violation(f"entry {entry!r}: the explicit name {ex['name']!r} is silently replaced by the output tensor "
                                f"name {c['name']!r} (docs: 'If not otherwise specified, the output tensor name is the name of "
                                f"the Einsum')", key=KNOWN_NAME)
            raise Violation(f"concise {entry!r} gives {field}={c[field]}, verbose form gives {v[field]}", key=f"differs:{field}")
    dc, dv = _norm_dump(wc), _norm_dump(wv)
    if dc != dv:
        diff = [k for k in dc["einsums"][0] if dc["einsums"][0][k] != dv["einsums"][0].get(k)]
        raise Violation(f"concise {entry!r}: model_dump differs from the verbose form in {diff}", key="differs:model_dump")


N = {"quick": 3000, "thorough": 30000}
NSHARDS = 6


def shards(tier, seed):
    return [{"k": k, "n": N[tier] // NSHARDS, "seed": seed} for k in range(NSHARDS)]


def run_shard(shard, col):
    drive(cases(), check, n=shard["n"], seed=hash32(shard["seed"], "C23", shard["k"]), col=col, max_failures=8)


def replay(desc, col):
    check(desc, col)


MUTANTS = [
    {"what": "_parse_einsum_string: first right-hand tensor flagged output, left-hand tensor not", "caught": True, "how": "differs:outputs"},
    {"what": "_parse_projection: part.split(':', 1)", "caught": True, "how": "malformed-accepted:three-part-entry"},
    {"what": "_parse_projection: shorthand rank not upper-cased", "caught": True, "how": "crash:ValidationError on valid strings"},
    {"what": "_parse_projection: duplicate-rank check removed", "caught": True,
     "how": "malformed-accepted:duplicate-rank:explicit-explicit / shorthand-then-explicit"},
    {"what": "_parse_einsum_entry: per-tensor extras not merged", "caught": True, "how": "differs:bits_per_value / persistent / scale"},
    {"what": "_parse_einsum_string: '=' count check only rejects > 1", "caught": False,
     "how": "equivalent mutant: a string without '=' still fails the full-pattern match and is rejected"},
]

REGISTER = True
MANIFEST = {
    "level_text": "Randomised exploration (Hypothesis, 3000 / 30000 cases per run): ~55% valid Einsums written both as concise string (random whitespace, optional extras) and as verbose dictionary, compared field by field and by model_dump; ~40% malformed strings/entries from 32 explicit classes that must be rejected; 5% zero-rank tensors, not asserted.",
    "level_note": "Trusted: the renderer/expected_projection in c23.py (shorthand v -> rank V; 'Rank: expr' verbatim, whitespace removed). Open findings tolerated by key: three malformed classes are accepted (duplicate rank when the shorthand follows the explicit entry, empty expression 'N:', unclosed bracket on the right-hand side drops an operand) and an explicit name next to an einsum string is overwritten. Right-hand-side junk between operands (e.g. '* 3') is not classified as malformed. 5/5 property-breaking mutants caught, 1 equivalent mutant.",
    "technique": "property-based differential testing (concise vs verbose form) plus class-based malformed inputs",
}
