"""C07 — symbolic cost formulas agree with concrete evaluation at every tile assignment."""

import math

from hypothesis import strategies as st

from vf.core import Violation, close, drive, hash32
from vf.gen import mapping as GM
from vf.gen import spec as G

PROPERTY = "C07"
LEVEL = "exploration"
TOLERANCE = "rel 2e-5 (symbolic side is evaluated in float32 by the repo's compiled formulas), abs 1e-6"
RULE = (
    "Hypothesis-generated small specs (1-2 Einsums, 2-3 memory levels, finite throughputs, leak, metrics ENERGY|LATENCY); "
    "for each drawn real pmapping template: the repo's _make_tile_shapes is run with an exhaustive tile-shape source so "
    "that its own symengine->sympy conversion, compile_dict/lambdify cache and column code produce Total energy, latency and "
    "reservation values for EVERY perfectly factorising assignment (all of them when <= 300, else a drawn sample of 60 "
    "that always includes the all-ones and all-max corners); each assignment is substituted into the template and the "
    "concrete mapping is evaluated with evaluate_mapping. Compared: Total energy, Total latency, per-memory peak usage "
    "(max reservation), validity (symbolic usage > 1 <=> InvalidMappingError), and -- through the formulas run_model "
    "returned (captured, evaluated with plain sympy.lambdify in float64) -- per-memory usage and per-component read/write/"
    "compute action totals. Non-trivial: template has >= 2 symbols and the assignment is not all-ones. Distinct = "
    "distinct (spec, template, assignment)."
)
ASSUMPTIONS = [
    "the concrete reference is accelforge's own evaluate_mapping (itself checked against the literal executor by C05/C06)",
    "perfect factorisation, dense projections, temporal loops (templates with spatial loops or initial-tile-shape symbols are skipped and counted)",
]


@st.composite
def cases(draw):
    sp = draw(G.specs(shapes=("matmul", "matvec", "elementwise", "chain2", "chain2", "elementwise2"),
                      levels=(2, 2, 3), metrics=("ENERGY|LATENCY",), finite_tp=True, allow_leak=True,
                      bound_pool=[2, 3, 4, 4, 6, 6, 8, 9, 12], max_ops=1200))
    picks = draw(st.lists(st.integers(0, 10_000), min_size=3, max_size=5, unique=True))
    sample_seed = draw(st.integers(0, 2**16))
    return {"spec": sp, "picks": picks, "sample_seed": sample_seed}


@st.composite
def bottleneck_cases(draw):
    """exactly one component has a finite INTEGER throughput (so the latency is a single raw expression with
    rational coefficients rather than a Max of several), with and without a spatial fanout"""
    wl = draw(G.workloads(shapes=("matmul", "matvec", "elementwise", "chain2"), bound_pool=[2, 3, 4, 4, 6, 8], max_ops=800))
    bits = list(wl["bits"].values())[0]
    fused = len(wl["einsums"]) > 1
    who = draw(st.sampled_from(["MAC", "MAC", "GLB", "Main"]))
    tp = draw(st.sampled_from([3, 5, 7, 6]))
    sizes = G.tensor_sizes(wl)
    tot = sum(sizes.values())

    def rw(name):
        return [1, tp if who == name else "inf"]

    nodes = [{"type": "Memory", "name": "Main", "size": "inf", "keep": "~Intermediates" if fused else "All", "may_keep": "All",
              "read": [4, rw("Main")[1]], "write": [4, rw("Main")[1]], "leak": draw(st.sampled_from([0, 0.5]))},
             {"type": "Memory", "name": "GLB", "size": draw(st.sampled_from(["inf", tot * bits + bits / 2])),
              "keep": "~Main" if fused else "Nothing", "may_keep": "All", "read": rw("GLB"), "write": rw("GLB"),
              "leak": draw(st.sampled_from([0, 0.25]))}]
    if draw(st.booleans()):
        nodes.append({"type": "Container", "name": "PEs", "spatial": [{"name": "X", "fanout": draw(st.sampled_from([2, 4]))}]})
        nodes.append({"type": "Memory", "name": "Reg", "size": "inf", "keep": "Nothing", "may_keep": "All",
                      "read": [0.5, "inf"], "write": [0.5, "inf"], "leak": 0})
    nodes.append({"type": "Compute", "name": "MAC", "compute": [1, tp if who == "MAC" else "inf"], "leak": 0})
    sp = dict(wl)
    sp["nodes"] = nodes
    sp["mapper"] = {"metrics": "ENERGY|LATENCY"}
    return {"spec": sp, "picks": draw(st.lists(st.integers(0, 10_000), min_size=3, max_size=5, unique=True)),
            "sample_seed": draw(st.integers(0, 2**16)), "bottleneck": who}


@st.composite
def deep_cases(draw):
    """one matmul on four memory levels with a spatial fanout: templates with 11 or more tile-shape symbols (stride0 ..
    stride10+), where the order of a formula's arguments is no longer the lexicographic order of the symbol names"""
    es, rvs = G.matmul_ab()
    bounds = {rv: draw(st.sampled_from([2, 4, 4])) for rv in rvs}
    bits = 8
    rw = lambda e, tp: [e, draw(st.sampled_from(tp))]
    nodes = [{"type": "Memory", "name": "Main", "size": "inf", "keep": "All", "may_keep": "All",
              "read": rw(8, ["inf", 2]), "write": rw(8, ["inf", 2]), "leak": 0},
             {"type": "Memory", "name": "L2", "size": "inf", "keep": "All", "may_keep": "All",
              "read": rw(4, ["inf", 4]), "write": rw(4, ["inf", 4]), "leak": draw(st.sampled_from([0, 0.5]))},
             {"type": "Memory", "name": "GLB", "size": "inf", "keep": draw(st.sampled_from(["All", "Nothing"])), "may_keep": "All",
              "read": rw(2, ["inf", 4]), "write": rw(2, ["inf", 4]), "leak": 0},
             {"type": "Container", "name": "PEs", "spatial": [{"name": "X", "fanout": draw(st.sampled_from([2, 4]))}]},
             {"type": "Memory", "name": "Reg", "size": "inf", "keep": draw(st.sampled_from(["All", "Nothing"])), "may_keep": "All",
              "read": [0.5, "inf"], "write": [0.5, "inf"], "leak": 0},
             {"type": "Compute", "name": "MAC", "compute": [1, draw(st.sampled_from([1, 2]))], "leak": 0}]
    sp = {"shape": "matmul-deep", "einsums": es, "bounds": bounds, "bits": {"All": bits}, "n_instances": 1, "nodes": nodes,
          "mapper": {"metrics": "ENERGY|LATENCY"}}
    return {"spec": sp, "picks": draw(st.lists(st.integers(0, 10_000), min_size=2, max_size=3, unique=True)),
            "sample_seed": draw(st.integers(0, 2**16)), "deep": True}


def _tree(job_mapping, row):
    tree = []
    for n in job_mapping.nodes:
        k = type(n).__name__
        if k == "Storage":
            tree.append({"k": "storage", "level": n.component, "tensors": list(n.tensors)})
        elif k == "Toll":
            tree.append({"k": "toll", "level": n.component, "tensors": list(n.tensors)})
        elif k == "Temporal":
            ts = n.tile_shape
            tree.append({"k": "loop", "rv": n.rank_variable, "tile": ts if isinstance(ts, int) else int(row[str(ts)])})
        elif k == "Spatial":
            ts = n.tile_shape
            tree.append({"k": "spatial", "rv": n.rank_variable, "tile": ts if isinstance(ts, int) else int(row[str(ts)]),
                         "name": n.name, "component": n.component})
        elif k == "Compute":
            tree.append({"k": "compute", "einsum": n.einsum, "level": n.component})
        elif k == "Reservation":
            continue
        else:
            return None
    return tree


def check_template(job, desc, col):
    import sympy
    from accelforge.model.main import InvalidMappingError, evaluate_mapping
    from vf import instrument as I

    MTS = I._mts()
    cap = {}
    orig = MTS.run_model

    def spy(j, *a, **k):
        r = orig(j, *a, **k)
        cap["r"] = r
        return r

    MTS.run_model = spy
    info = I.ExhaustiveInfo()
    try:
        try:
            df, jj = I.raw_tile_shapes(job, exhaustive=True, info=info, apply_validity=False)
        except NotImplementedError:
            col.case([desc["spec"], job.mapping.compact_str()], False, ["template:unsupported"])
            return
        except Exception as e:  # noqa: BLE001  (crash inside the repo's formula compilation/evaluation)
            import traceback
            raise Violation(f"[{job.mapping.compact_str()}] _make_tile_shapes raised {type(e).__name__}: {str(e)[:300]}\n"
                            f"{traceback.format_exc(limit=5)}", key=f"crash-formulas:{type(e).__name__}")
    finally:
        MTS.run_model = orig
    if "r" not in cap or len(df) == 0:
        col.case([desc["spec"], job.mapping.compact_str()], False, ["template:empty"])
        return
    symbols, sdf, pmu, udf, t2m, adf = cap["r"]
    symbols = list(symbols)
    names = [str(s) for s in symbols]
    if _tree(jj.mapping, df.iloc[0]) is None:
        col.case([desc["spec"], job.mapping.compact_str()], False, ["template:spatial"])
        return
    n = len(df)
    idx = list(range(n))
    if n > 300:
        import random  # deterministic sample derived from the descriptor
        rng = random.Random(desc["sample_seed"])
        keep = set(rng.sample(idx, 58))
        ones = [i for i in idx if all(df.iloc[i][s] == 1 for s in names)]
        mx = max(idx, key=lambda i: tuple(df.iloc[i][s] for s in names))
        keep |= set(ones[:1]) | {mx}
        idx = sorted(keep)
    f_usage = {k: sympy.lambdify(symbols, sympy.sympify(v), "math") for k, v in pmu.items()}
    f_act = {k: sympy.lambdify(symbols, sympy.sympify(v), "math") for k, v in adf.items()}
    f_spatial = {k: sympy.lambdify(symbols, sympy.sympify(v), "math") for k, v in udf.items()}
    spec = G.build_spec(desc["spec"], apply_mapper=False)
    E = job.einsum_name
    SEP = "<SEP>"
    tmpl = job.mapping.compact_str()
    res_cols = [c for c in df.columns if c.startswith("reservation" + SEP)]
    for i in idx:
        row = df.iloc[i]
        assign = {s: int(row[s]) for s in names}
        args = [assign[s] for s in names]
        nontrivial = len(names) >= 2 and any(v != 1 for v in assign.values())
        col.case([desc["spec"], tmpl, assign], nontrivial,
                 [f"symbols:{min(len(names), 4)}", "exhaustive" if n <= 300 else "sampled",
                  "spatial_template" if "S-" in tmpl else "temporal_template",
                  "single_bottleneck:" + desc["bottleneck"] if desc.get("bottleneck") else "several_finite_throughputs"],
                 sample={"template": tmpl, "assignment": assign, "n_assignments": n,
                         "symbolic": {c: float(row[c]) for c in df.columns if c.startswith("Total")}})
        sym_usage = {}
        for c in res_cols:
            mem = c.split(SEP)[1]
            sym_usage[mem] = max(sym_usage.get(mem, 0.0), float(row[c]))
        # validity on the symbolic side: the per-memory usage formulas the exploration limits to <= 1
        # (memories tracked only during pmapping generation have no reservation column)
        lim = dict(sym_usage)
        for k, f in f_usage.items():
            mem = k.split(SEP)[2]
            lim[mem] = max(lim.get(mem, 0.0), float(f(*args)))
        for k, f in f_spatial.items():          # spatial fanout usage formulas (limited to <= 1 as well)
            lim[k] = float(f(*args))
        sym_over = any(v > 1 + 1e-6 for v in lim.values())
        sym_exact = any(abs(v - 1) <= 1e-6 for v in lim.values())
        spec.mapping = GM.to_af_mapping(_tree(jj.mapping, row))
        try:
            r = evaluate_mapping(spec)
        except InvalidMappingError as e:
            if sym_over or sym_exact:
                col.label("concrete:invalid")
                continue
            raise Violation(f"[{tmpl}] {assign}: concrete mapping invalid ({str(e)[:160]}) but symbolic usage is {lim}",
                            key="validity:symbolic-accepts")
        except Exception as e:  # noqa: BLE001
            raise Violation(f"[{tmpl}] {assign}: evaluate_mapping raised {type(e).__name__}: {str(e)[:300]}",
                            key=f"crash:{type(e).__name__}")
        if sym_over and not sym_exact:
            raise Violation(f"[{tmpl}] {assign}: symbolic usage {lim} exceeds 1 but the concrete mapping is valid",
                            key="validity:symbolic-rejects")
        got = r.data.iloc[0]
        for c in ("Total<SEP>energy", "Total<SEP>latency"):
            if c in df.columns:
                a, b = float(row[c]), float(got[c])
                if not close(a, b, rel=2e-5, abs_=1e-6):
                    raise Violation(f"[{tmpl}] {assign}: {c} symbolic {a} vs concrete {b}", key="formula:" + c.split(SEP)[1])
        usage = r.resource_usage()
        for mem, v in sym_usage.items():
            b = float(usage.get(mem, 0.0))
            if not close(v, b, rel=2e-5, abs_=1e-6):
                raise Violation(f"[{tmpl}] {assign}: usage of {mem} symbolic (max reservation) {v} vs concrete {b}",
                                key="formula:reservation")
        for k, f in f_usage.items():
            mem = k.split(SEP)[2]
            a, b = float(f(*args)), float(usage.get(mem, 0.0))
            if not close(a, b, rel=1e-6, abs_=1e-9):
                raise Violation(f"[{tmpl}] {assign}: {k} formula {a} vs concrete usage {b}", key="formula:usage")
        for k, f in f_act.items():
            _, comp, act = k.split(SEP)
            a = float(f(*args))
            b = sum(float(got[c]) for c in r.data.columns
                    if c.startswith(f"{E}{SEP}action{SEP}{comp}{SEP}") and c.endswith(SEP + act))
            if not close(a, b, rel=1e-6, abs_=1e-9):
                raise Violation(f"[{tmpl}] {assign}: {k} formula {a} vs concrete action total {b}", key="formula:actions")


def check(desc, col):
    from vf import instrument as I

    spec = G.build_spec(desc["spec"])
    try:
        jobs = I.template_jobs(spec)
    except Exception as e:  # noqa: BLE001
        if "No pmappings" in str(e):
            col.case(desc["spec"], False, ["spec:no-templates"])
            return
        raise Violation(f"template generation raised {type(e).__name__}: {str(e)[:300]}", key=f"crash-templates:{type(e).__name__}")
    if not jobs:
        col.case(desc["spec"], False, ["spec:no-templates"])
        return
    jobs = sorted(jobs, key=lambda j: (-sum(1 for n in j.mapping.nodes if type(n).__name__ in ("Temporal", "Spatial")),
                                       j.mapping.compact_str()))
    jobs = jobs[: max(1, (len(jobs) + 1) // 2)]
    only = desc.get("only_template")
    seen = set()
    for p in desc["picks"]:
        i = p % len(jobs)
        if i in seen or (only is not None and jobs[i].mapping.compact_str() != only):
            continue
        seen.add(i)
        if col.over_budget():
            return
        try:
            check_template(jobs[i], desc, col)
        except Violation:
            desc["only_template"] = jobs[i].mapping.compact_str()
            raise


N = {"quick": 32, "thorough": 320}
NSHARDS = 16
QUICK_BUDGET_S = 420


def shards(tier, seed):
    return [{"k": k, "n": max(1, N[tier] // NSHARDS), "seed": seed} for k in range(NSHARDS)]


def run_shard(shard, col):
    drive(cases(), check, n=shard["n"], seed=hash32(shard["seed"], "C07", shard["k"]), col=col)
    drive(bottleneck_cases(), check, n=shard["n"], seed=hash32(shard["seed"], "C07b", shard["k"]), col=col)
    drive(deep_cases(), check, n=max(1, shard["n"] // 2), seed=hash32(shard["seed"], "C07d", shard["k"]), col=col)


def replay(desc, col):
    check(desc, col)


REGISTER = True
MUTANTS = [
    {"what": "compile_dict lambdifies with the symbol list reversed", "caught": True},
    {"what": "_lambdify_cache key drops the symbol tuple", "caught": True, "how": "crash in formula evaluation (Violation crash-formulas)"},
    {"what": "_to_sp: se.Max->sympy.Min, Rational(p,q)->(q,p), se.Pow->Mul", "caught": False,
     "note": "dead code in this environment: run_model already returns sympy expressions, the symengine branches of _to_sp are never taken"},
]
MANIFEST = {
    "level_text": "For real templates of generated specs, every perfectly factorising tile assignment (exhaustive up to 300 per template, sampled beyond) is pushed through the repo's own compiled symbolic formulas and through a concrete evaluate_mapping of the substituted mapping; energy, latency, per-memory usage, validity and per-component action totals must agree. No counterexample in N assignments; not a proof.",
    "level_note": "Trusted: evaluate_mapping as the concrete reference (checked against the literal executor by C05/C06) and the harness-side exhaustive tile-shape source. The symbolic and concrete paths share most model code, so this check targets formula conversion, compilation, caching and float32 evaluation.",
    "technique": "property-based differential testing: symbolic formulas vs concrete evaluation (Hypothesis, exhaustive per template)",
}
