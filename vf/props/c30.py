"""C30 — network transfer costs match route enumeration.

Two families, both run by every invocation (labels family:exhaustive / family:e2e):

* exhaustive ("box") family — finite domain, enumerated completely: every (topology, relevancy,
  fanout n, stride, volume) in the tier's box is compared with vf/ref/routes.py, which places the
  (non-distributed) source at node 0 of a line (or on a switch), routes every value link by link
  and counts link traversals and per-link load.  Observes per_loop_transfer_cost only.

* end-to-end family — Hypothesis-generated small evaluate_mapping cases: one Einsum, MainMemory ->
  Network (mesh or all_to_all) -> PeBuffer with a spatial fanout (one or two mesh axes) -> MAC and
  a mapping whose 1-3 spatial loops split the axes between nested fanouts.  The reported per-tensor
  hop counts and the reported maximum link traffic are compared with vf/ref/routes.nest_routes,
  which routes every tile of every tensor link by link through the whole nest.  This is what sees
  the stride (fanout below) that the analyzer hands to the topology model, the volumes, and the
  accumulation over nested loops and over tensors."""

from hypothesis import strategies as st

from vf.core import Violation, close, drive, hash32, must
from vf.ref import routes as R

PROPERTY = "C30"
LEVEL = "exploration"
EXHAUSTIVE = True   # the box family is enumerated completely; e2e shards report exhaustive=False, so the evidence
#                     of a full run says exhaustive=false and extra box_family_shards_completed counts the box shards
RULE = (
    "Two families. [family:exhaustive] "
    "Exhaustive enumeration of topology in {mesh, all_to_all} x relevancy in {Irrelevant (multicast), "
    "Relevant (unicast)} x fanout n in 1..N x stride in 1..S x volume in a fixed list (ints, a non-integer, "
    "a sympy symbol); source not physically distributed. total_cost and max_traffic of "
    "get_topology_model(t).per_loop_transfer_cost(...) are compared with explicit route enumeration "
    "(hops*volume, max link load*volume; symbolic volume compared by substitution at 3 points). "
    "Non-trivial: n >= 2 (at least one route exists). Distinct = distinct (topology, relevancy, n, stride, volume). "
    "n = 1 asserts total hops == 0 only. "
    "[family:e2e] Hypothesis-generated evaluate_mapping cases: one Einsum (matmul 60%, matvec, elementwise, outer product; "
    "rank sizes = product of the loop factors, <= 3*32*3), 1/5/8/16 bits per value, arch MainMemory -> Network(topology mesh "
    "or all_to_all, total_latency = max_link_traffic, hop energy 1) -> PeBuffer(spatial X [and Y on a mesh], fanout = used "
    "fanout + slack in {0,1,3}) -> MAC, all tensors kept in both memories; mapping: 0-2 temporal loops above the fanout (2-3 "
    "iterations, only over rank variables of the output), then 1-3 spatial loops over distinct rank variables in generated "
    "order (shapes: one loop x2..32; two or three nested loops on the SAME axis with product <= 32; two axes X../Y.. with "
    "<= 8 PEs each; X,Y,X with the X axis (<= 16 PEs) split around a Y loop of 2-4), tile shape = what is left for the temporal loop below (1-3), "
    "one loop in 12 degenerate (fanout 1), PeBuffer storage, remaining rank variables as temporal loops of tile 1 below. "
    "Per tensor the reported hop action count of the Network, and the Network latency (= reported max link traffic), are "
    "compared with vf/ref/routes.nest_routes: PE coordinate on an axis = mixed-radix number of the loop indices on that axis "
    "(outer loop most significant, so an outer loop's destinations are 'fanout below' apart), source at coordinate 0, every "
    "level delivers one tile per destination (own tile if the loop's rank variable indexes the tensor, else one shared tile "
    "crossing each link once) and the next level fans out from each destination; volumes are tile sizes in bits below the "
    "loop; link loads are summed over the three tensors; everything x the iterations of the temporal loops above. "
    "Non-trivial: >= 1 spatial loop with fanout >= 2. Label e2e:nested_same_dim = two loops with fanout >= 2 share an axis "
    "(outer stride > 1). Distinct = distinct descriptor."
)
ASSUMPTIONS = [
    "source is not physically distributed (_get_physical_fanout_along == 1), as the property states",
    "the source sits at destination 0's position; destination i is i*stride unit links away (mesh)",
    "on the switch one source->switch->destination delivery is one hop and the switch replicates shared values",
    "max_hops is not part of the property and is not asserted",
    "n = 1 (no route at all): only total hops == 0 is asserted (DESIGN.md §8)",
    "e2e: delivery is hierarchical and follows the spatial loops top to bottom (components.py: 'the routing follows the "
    "order of the spatial nodes'): a level's tile is brought to the level's destination, the next level fans out from there",
    "e2e: an output tile reduced/collected towards the source is routed like an operand tile of the same size and loads the "
    "same links (links are not directional); a loop that does not index the output is a reduction and counts as a shared tile",
    "e2e: every storage node refetches its tile whenever an enclosing loop advances (the documented rule C05/C06 rely on), so "
    "t iterations of temporal loops above the fanout route everything t times. Only loops over rank variables of the OUTPUT "
    "are generated above the fanout: under a reduction loop the output tile travels up and down again each iteration while "
    "the model counts it once per iteration -- how often it should be counted is not settled by the statement, so that class "
    "is not generated (observation reported, not asserted)",
    "e2e: all_to_all is generated with ONE axis only: with two axes the statement does not say whether there is one switch "
    "per axis line or one for all PEs (the model takes the per-axis maximum); mesh is generated with one or two axes",
    "e2e: a spatial loop with fanout 1 (no route) is generated occasionally; such cases assert hops only (same rule as n = 1)",
    "e2e: no temporal loop between two spatial loops, no tensor bypassing the PE buffer, perfect factorisation only, "
    "source not distributed (MainMemory has no spatial fanout), bits_per_action of the network left at its default",
    "e2e: two defects found by this family were repaired in /repo (02db3c3, e0744ea; known_findings.json); their keys are kept as classifications of a regression: key '" + "e2e:traffic:temporal-loop-above-not-scaled" + "' is raised "
    "only when the reported traffic equals the routed traffic of exactly one iteration, key '"
    + "e2e:mesh:traffic:other-axis-dropped" + "' only on two axes and only when it equals the routed traffic of the top run of "
    "same-axis loops alone (per iteration or times the iterations above); any "
    "other value is an ordinary e2e:<topology>:traffic violation",
]
TOLERANCE = ("rel 1e-9 on numeric results of the box family (closed forms use 0.5*n*(n+1) floats); rel 1e-6 on the e2e "
             "family's reported hop counts and max link traffic")
LIMITS = {
    "quick": {"n": 32, "stride": 8, "volumes": [1, 3, 8, 2.5, "V"]},
    "thorough": {"n": 64, "stride": 12, "volumes": [1, 3, 8, 2.5, 0.125, 1000, 7, "V"]},
}
NSHARDS = 6

MUTANTS = [
    {"what": "unicast_cost: arithmetic_sum(n_dsts) instead of arithmetic_sum(n_dsts - 1)", "caught": True,
     "key": "mesh:unicast:total"},
    {"what": "MeshTopologyModel multicast: max_traffic = shape_repeats * volume", "caught": True,
     "key": "mesh:multicast:traffic"},
    {"what": "AllToAllTopologyModel unicast: max_traffic = volume (uplink not accumulated)", "caught": True,
     "key": "all_to_all:unicast:traffic"},
    {"what": "multicast_cost: n_dsts * stride instead of (n_dsts - 1) * stride", "caught": True,
     "key": "mesh:multicast:total"},
    {"what": "AllToAllTopologyModel: n_dsts = shape_repeats (source delivers to itself)", "caught": True,
     "key": "all_to_all:multicast:total"},
    # end-to-end family (tools/mutate.sh, quick tier, seed 1); none of these is visible to the box family
    {"what": "NetworkAnalyzer.accumulate_child_result: stride (last_fanout) looked up under (network.component, einsum) "
             "instead of (self.node.component, einsum) -> stride silently 1 when an axis is split between nested loops "
             "(= seeded/C30/patch.diff)", "caught": True, "key": "e2e:mesh:hops",
     "note": "shrunk to matvec, k:X x2 over m:X x2, 1 bit: A reported 4 hops, routed 6"},
    {"what": "accumulate_child_result: inner loops' hops not multiplied by the outer fanout "
             "(+ child_network_stats.total_hops instead of * shape_repeats)", "caught": True,
     "key": "e2e:mesh:hops, e2e:all_to_all:hops"},
    {"what": "_get_data_volume: tile occupancy not multiplied by actions_per_value (bits per value ignored)",
     "caught": True, "key": "e2e:mesh:hops, e2e:all_to_all:hops"},
    {"what": "accumulate_child_result: max_traffic of the inner loop on the same axis not added (+ 0)", "caught": True,
     "key": "e2e:mesh:traffic, e2e:all_to_all:traffic"},
    {"what": "_symbolic.analyze_spatial: fanout[node_dim] += shape_repeats (fanout below not multiplied in; wrong stride "
             "for the outermost of three nested loops)", "caught": True, "key": "e2e:mesh:hops"},
    {"what": "NetworkStats.repeat: total_hops not multiplied by the iterations of a temporal loop above the fanout",
     "caught": True, "key": "e2e:mesh:hops, e2e:all_to_all:hops"},
]


class _NotDistributed:
    """Stand-in for a flattened-arch source component that is not physically distributed
    (same shape as the stand-in in tests/network/test_topology_model.py)."""

    def _get_physical_fanout_along(self, dim_name, default=1):
        return 1

    def _get_physical_stride_along(self, dim_name):
        raise ValueError(f"dimension {dim_name} not found")


_route_cache: dict = {}


def _routes(topology, n, stride, multicast):
    key = (topology, n, stride if topology == "mesh" else 0, multicast)
    if key not in _route_cache:
        _route_cache[key] = R.route(topology, n, stride, multicast)
    return _route_cache[key]


def _num(x):
    """Numeric value of a result that may be int/float/numpy/sympy-number."""
    return float(x)


def _matches(got, units, volume, sym):
    """got == units * volume ?"""
    if sym is None:
        return close(_num(got), float(units) * float(volume), rel=1e-9, abs_=1e-12)
    import sympy

    g = sympy.sympify(got)
    if not g.free_symbols <= {sym}:
        return False
    for v in (0, 1, 3.5):
        if not close(float(g.subs(sym, v)), float(units) * v, rel=1e-9, abs_=1e-12):
            return False
    return True


def _check_box(desc, col):
    import sympy
    from accelforge.frontend._workload_isl._symbolic import Irrelevant, Relevant
    from accelforge.frontend.arch.components import TopologySpec
    from accelforge.model._looptree.reuse.symbolic._network import get_topology_model

    topo, rel, n, stride, vol = desc["topology"], desc["relevancy"], desc["n"], desc["stride"], desc["volume"]
    multicast = rel == "Irrelevant"
    sym = sympy.Symbol("V", positive=True) if vol == "V" else None
    volume = sym if sym is not None else vol
    relevancy = Irrelevant() if multicast else Relevant("n0")

    model = must(get_topology_model, TopologySpec(topo), what="get_topology_model")
    cost = must(model.per_loop_transfer_cost, relevancy, shape_repeats=n, last_fanout=stride, volume=volume,
                src_component=_NotDistributed(), dim_name="X", what="per_loop_transfer_cost")

    hops, load = _routes(topo, n, stride, multicast)
    max_load = max(load.values()) if load else 0
    kind = "multicast" if multicast else "unicast"
    volclass = "symbolic" if sym is not None else ("int" if float(vol).is_integer() else "frac")
    nontrivial = n >= 2
    col.case(desc, nontrivial,
             labels=["family:exhaustive", f"{topo}:{kind}", f"volume:{volclass}", "n=1" if n == 1 else ("n=2" if n == 2 else "n>=3"),
                     "stride=1" if stride == 1 else "stride>1"],
             sample={"case": desc, "ref_hops_units": hops, "ref_max_link_units": max_load,
                     "got_total": str(cost.total_cost), "got_max_traffic": str(cost.max_traffic)}
             if nontrivial and (n * 31 + stride * 7) % 97 == 5 else None)

    if not _matches(cost.total_cost, hops, volume, sym):
        raise Violation(
            f"{topo} {kind} n={n} stride={stride} volume={vol}: total_cost={cost.total_cost} but routing every "
            f"value gives {hops} link traversals x volume", key=f"{topo}:{kind}:total")
    if n >= 2 and not _matches(cost.max_traffic, max_load, volume, sym):
        raise Violation(
            f"{topo} {kind} n={n} stride={stride} volume={vol}: max_traffic={cost.max_traffic} but the busiest "
            f"link carries {max_load} x volume", key=f"{topo}:{kind}:traffic")


# =============================================================================================
# End-to-end family
# =============================================================================================

E2E_WORKLOADS = {   # einsum text, {tensor: rank variables}, output tensor
    "matmul": ("Z[m,n] = A[m,k] * B[k,n]", {"A": ["m", "k"], "B": ["k", "n"], "Z": ["m", "n"]}, "Z"),
    "matvec": ("Z[m] = A[m,k] * B[k]", {"A": ["m", "k"], "B": ["k"], "Z": ["m"]}, "Z"),
    "elementwise": ("Z[m,n] = A[m,n] * B[m,n]", {"A": ["m", "n"], "B": ["m", "n"], "Z": ["m", "n"]}, "Z"),
    "outer": ("Z[m,n] = A[m] * B[n]", {"A": ["m"], "B": ["n"], "Z": ["m", "n"]}, "Z"),
}
KEY_TEMPORAL_ABOVE = "e2e:traffic:temporal-loop-above-not-scaled"
KEY_OTHER_AXIS = "e2e:mesh:traffic:other-axis-dropped"


def _e2e_rvs(workload):
    proj = E2E_WORKLOADS[workload][1]
    return sorted({r for p in proj.values() for r in p})


def _factorisations(nloops, limit):
    """All tuples of nloops fanouts >= 2 with product <= limit."""
    out = [()]
    for _ in range(nloops):
        out = [t + (f,) for t in out for f in range(2, limit + 1)]
        out = [t for t in out if _prod(t) <= limit]
    return out


def _prod(xs):
    p = 1
    for x in xs:
        p *= x
    return p


_FACT = {(k, lim): _factorisations(k, lim) for k, lim in ((1, 32), (2, 32), (3, 32), (1, 8), (2, 8), (2, 16))}


@st.composite
def e2e_cases(draw):
    workload = draw(st.sampled_from(["matmul"] * 6 + ["matvec", "elementwise", "outer", "outer"]))
    _, proj, out = E2E_WORKLOADS[workload]
    rvs = _e2e_rvs(workload)
    topology = draw(st.sampled_from(["mesh", "mesh", "mesh", "all_to_all", "all_to_all"]))
    shape = draw(st.sampled_from(["single"] * 3 + ["nested2"] * 8 + ["nested3"] * 3 + ["twoD"] * 4 + ["interleaved"] * 2))
    if shape in ("nested3", "interleaved") and len(rvs) < 3:
        shape = "nested2"
    if shape in ("twoD", "interleaved") and topology != "mesh":
        shape = "nested2"
    order = list(draw(st.permutations(rvs)))
    if shape == "single":
        dims, fans = ["X"], draw(st.sampled_from(_FACT[(1, 32)]))
    elif shape == "nested2":
        dims, fans = ["X", "X"], draw(st.sampled_from(_FACT[(2, 32)]))
    elif shape == "nested3":
        dims, fans = ["X", "X", "X"], draw(st.sampled_from(_FACT[(3, 32)]))
    elif shape == "interleaved":
        a, c = draw(st.sampled_from(_FACT[(2, 16)]))
        dims, fans = ["X", "Y", "X"], (a, draw(st.sampled_from([2, 2, 3, 4])), c)
    else:
        first, second = draw(st.sampled_from([("X", "Y"), ("Y", "X")]))
        n1 = draw(st.sampled_from([1, 2, 2])) if len(rvs) >= 3 else 1
        n2 = 1 if (n1 == 2 or len(rvs) < 3) else draw(st.sampled_from([1, 2]))
        f1 = draw(st.sampled_from(_FACT[(n1, 8)]))
        f2 = draw(st.sampled_from(_FACT[(n2, 8)]))
        dims, fans = [first] * n1 + [second] * n2, f1 + f2
    fans = list(fans)
    if draw(st.integers(0, 11)) == 0:                       # a degenerate one-iteration spatial loop
        fans[draw(st.integers(0, len(fans) - 1))] = 1
    spatial = [{"rv": order[i], "dim": dims[i], "fanout": fans[i]} for i in range(len(dims))]
    rest = {r: draw(st.sampled_from([1, 1, 1, 2, 3])) for r in rvs}
    below = [r for r in draw(st.permutations(rvs)) if rest[r] > 1 or draw(st.booleans())]
    above = []
    if shape != "interleaved":
        cand = list(draw(st.permutations(proj[out])))       # only loops that index the output (see ASSUMPTIONS)
        for r in cand[:draw(st.sampled_from([0, 0, 0, 1, 1, 2]))]:
            above.append({"rv": r, "iters": draw(st.sampled_from([2, 2, 3]))})
    slack = {d: draw(st.sampled_from([0, 0, 0, 1, 3])) for d in sorted(set(dims))}
    return {"family": "e2e", "topology": topology, "workload": workload, "bits": draw(st.sampled_from([1, 8, 8, 16, 5])),
            "above": above, "spatial": spatial, "rest": rest, "below": below, "slack": slack}


def _e2e_sizes(desc):
    size = {}
    for r in _e2e_rvs(desc["workload"]):
        s = desc["rest"].get(r, 1)
        for lp in desc["spatial"]:
            if lp["rv"] == r:
                s *= lp["fanout"]
        for lp in desc["above"]:
            if lp["rv"] == r:
                s *= lp["iters"]
        size[r] = s
    return size


def _e2e_build(desc):
    """-> (spec, einsum name).  Loop tile shapes follow from the sizes: a loop over r leaves size/iterations."""
    import accelforge
    from accelforge.frontend import arch as A
    from accelforge.frontend.mapping import Compute, Mapping, Spatial, Storage, Temporal
    from accelforge.frontend.workload import Workload

    text, proj, _ = E2E_WORKLOADS[desc["workload"]]
    size = _e2e_sizes(desc)
    rw = [{"name": "read", "energy": 0, "throughput": "inf"}, {"name": "write", "energy": 0, "throughput": "inf"}]
    used = {}
    for lp in desc["spatial"]:
        used[lp["dim"]] = used.get(lp["dim"], 1) * lp["fanout"]
    fanouts = [{"name": d, "fanout": f + desc["slack"].get(d, 0)} for d, f in used.items()]
    arch = A.Arch(nodes=[
        A.Memory(name="MainMemory", size="inf", leak_power=0, area=0, tensors={"keep": "All"}, actions=rw),
        A.Network(name="NoC", leak_power=0, area=0, topology=desc["topology"], total_latency="max_link_traffic",
                  actions=[{"name": "hop", "energy": 1, "latency": 0, "throughput": "inf"}]),
        A.Memory(name="PeBuffer", size="inf", leak_power=0, area=0, tensors={"keep": "All"}, actions=rw,
                 spatial=fanouts),
        A.Compute(name="MAC", leak_power=0, area=0, actions=[{"name": "compute", "energy": 0, "throughput": "inf"}]),
    ])
    wl = Workload(einsums=[text], rank_sizes={r.upper(): n for r, n in size.items()},
                  bits_per_value={"All": desc["bits"]})
    spec = accelforge.Spec(arch=arch, workload=wl)
    name = wl.einsums[0].name
    tensors = sorted(proj)
    cur = dict(size)
    nodes = [Storage(tensors=tensors, component="MainMemory")]
    for lp in desc["above"]:
        cur[lp["rv"]] //= lp["iters"]
        nodes.append(Temporal(rank_variable=lp["rv"], tile_shape=cur[lp["rv"]]))
    for lp in desc["spatial"]:
        cur[lp["rv"]] //= lp["fanout"]
        nodes.append(Spatial(rank_variable=lp["rv"], tile_shape=cur[lp["rv"]], component="PeBuffer", name=lp["dim"]))
    nodes.append(Storage(tensors=tensors, component="PeBuffer"))
    for r in desc["below"]:
        nodes.append(Temporal(rank_variable=r, tile_shape=1))
    nodes.append(Compute(einsum=name, component="MAC"))
    spec.mapping = Mapping(nodes=nodes)
    return spec, name


def _e2e_levels(desc, tensor, nlevels=None):
    """The tensor's fanout nest for vf/ref/routes.nest_routes: (axis, n, unicast, bits of one tile below the loop)."""
    proj = E2E_WORKLOADS[desc["workload"]][1][tensor]
    cur = _e2e_sizes(desc)
    for lp in desc["above"]:
        cur[lp["rv"]] //= lp["iters"]
    levels = []
    for lp in desc["spatial"]:
        cur[lp["rv"]] //= lp["fanout"]
        levels.append((lp["dim"], lp["fanout"], lp["rv"] in proj, desc["bits"] * _prod(cur[r] for r in proj)))
    return levels if nlevels is None else levels[:nlevels]


def _e2e_route(desc, nlevels=None):
    """Route every tensor through the nest once -> ({tensor: hop volume}, busiest link volume, {axis: busiest})."""
    load: dict = {}
    hops = {}
    for t in sorted(E2E_WORKLOADS[desc["workload"]][1]):
        hops[t], _ = R.nest_routes(desc["topology"], _e2e_levels(desc, t, nlevels), load)
    per_axis = R.busiest_link_per_axis(desc["topology"], load)
    return hops, max(per_axis.values(), default=0), per_axis


def _check_e2e(desc, col):
    from accelforge.model.main import evaluate_mapping

    topo, spatial, above = desc["topology"], desc["spatial"], desc["above"]
    _, proj, out = E2E_WORKLOADS[desc["workload"]]
    if any(lp["rv"] not in proj[out] for lp in above):
        col.reject("e2e: temporal loop above the fanout does not index the output")    # never generated
        return
    dims = [lp["dim"] for lp in spatial]
    if topo != "mesh" and len(set(dims)) > 1:
        col.reject("e2e: all_to_all with two axes")                                     # never generated
        return

    spec, einsum = _e2e_build(desc)
    res = must(evaluate_mapping, spec, what="evaluate_mapping")
    row = res.data.iloc[0]
    got_hops = {c.split("<SEP>")[-2]: float(row[c]) for c in res.data.columns
                if "<SEP>action<SEP>NoC<SEP>" in c and c.endswith("<SEP>hop")}
    got_traffic = float(row[f"{einsum}<SEP>latency<SEP>NoC"])

    iters = _prod(lp["iters"] for lp in above)
    hops1, traffic1, per_axis = _e2e_route(desc)
    want_hops = {t: h * iters for t, h in hops1.items()}
    want_traffic = traffic1 * iters

    # ---- classification ------------------------------------------------------------------------
    stride = []                                   # fanout below on the same axis, per loop
    for i, lp in enumerate(spatial):
        stride.append(_prod(q["fanout"] for q in spatial[i + 1:] if q["dim"] == lp["dim"]))
    nested_same_dim = any(s > 1 and lp["fanout"] >= 2 for s, lp in zip(stride, spatial))
    has_f1 = any(lp["fanout"] == 1 for lp in spatial)
    nontrivial = any(lp["fanout"] >= 2 for lp in spatial)
    top_run = 1
    while top_run < len(dims) and dims[top_run] == dims[0]:
        top_run += 1
    interleaved = any(d == dims[0] for d in dims[top_run:])          # an axis comes back below another axis
    casts = {t: "".join("U" if lp["rv"] in proj[t] else "M" for lp in spatial) for t in proj}
    kinds = {c for s in casts.values() for c in s}
    labels = ["family:e2e", f"e2e:topology:{topo}", f"e2e:workload:{desc['workload']}", f"e2e:spatial-loops:{len(spatial)}",
              f"e2e:temporal-above:{len(above)}",
              "e2e:axes:" + ("1" if len(set(dims)) == 1 else "2-interleaved" if interleaved else "2"),
              "e2e:cast-mix:" + ("unicast+multicast" if len(kinds) == 2 else "unicast-only" if kinds == {"U"} else "multicast-only"),
              "e2e:max-stride:" + ("1" if max(stride) == 1 else "2-4" if max(stride) <= 4 else ">=5"),
              "e2e:tile>1" if any(desc["rest"].get(lp["rv"], 1) > 1 for lp in spatial) else "e2e:tile=1"]
    labels += ["e2e:tensor-cast:" + s for s in sorted(set(casts.values())) if len(s) >= 2]
    if nested_same_dim:
        labels.append("e2e:nested_same_dim")
        labels.append(f"e2e:nested_same_dim:{topo}")
    if has_f1:
        labels.append("e2e:has-fanout-1-loop(hops only)")
    if any(v for v in desc["slack"].values()):
        labels.append("e2e:arch-fanout>used")
    col.case(desc, nontrivial, labels,
             sample={"case": desc, "routed_hops": want_hops, "reported_hops": got_hops,
                     "routed_max_link": want_traffic, "reported_max_link": got_traffic, "busiest_per_axis(1 iteration)": per_axis}
             if nested_same_dim else None)

    # ---- hops ------------------------------------------------------------------------------------
    what = (f"{desc['workload']} on {topo}, spatial loops (top to bottom) "
            + ", ".join(f"{lp['rv']}:{lp['dim']}x{lp['fanout']}(stride {s})" for lp, s in zip(spatial, stride))
            + (f", temporal above {[(lp['rv'], lp['iters']) for lp in above]}" if above else "")
            + f", sizes {_e2e_sizes(desc)}, {desc['bits']} bits/value")
    for t in sorted(want_hops):
        if t not in got_hops:
            raise Violation(f"{what}: no NoC hop count reported for tensor {t} (columns: {sorted(got_hops)})",
                            key=f"e2e:{topo}:hops-missing")
        if not close(got_hops[t], float(want_hops[t]), rel=1e-6, abs_=1e-9):
            raise Violation(
                f"{what}: tensor {t} (casts {casts[t]}): reported NoC hops {got_hops[t]:g}, routing every tile through the "
                f"nest {_e2e_levels(desc, t)} gives {want_hops[t]} (all tensors: reported {got_hops}, routed {want_hops})",
                key=f"e2e:{topo}:hops")

    # ---- max link traffic --------------------------------------------------------------------------
    if has_f1:
        return                                  # n = 1 fanout: only hops are asserted (DESIGN.md §8)
    if close(got_traffic, float(want_traffic), rel=1e-6, abs_=1e-9):
        return
    msg = (f"{what}: reported max link traffic {got_traffic:g}, the busiest link of the routed nest carries "
           f"{want_traffic} ({traffic1} per iteration x {iters} iterations above; per axis {per_axis})")
    if iters > 1 and close(got_traffic, float(traffic1), rel=1e-6, abs_=1e-9):
        raise Violation(msg + " -- the reported value is the traffic of ONE iteration of the temporal loops above the "
                        "fanout, although the hop counts are multiplied by the iterations", key=KEY_TEMPORAL_ABOVE)
    if len(set(dims)) > 1:
        _, dropped, _ = _e2e_route(desc, top_run)     # what is left if only the top run of same-axis loops is counted
        if close(got_traffic, float(dropped), rel=1e-6, abs_=1e-9) or close(got_traffic, float(dropped * iters), rel=1e-6, abs_=1e-9):
            raise Violation(msg + f" -- the reported value counts only the top {top_run} loop(s) on axis {dims[0]} ({dropped} per "
                            f"iteration); the traffic of every loop below the first {dims[top_run]} loop is lost",
                            key=KEY_OTHER_AXIS)
    raise Violation(msg, key=f"e2e:{topo}:traffic")


def check(desc, col):
    if desc.get("family") == "e2e":
        _check_e2e(desc, col)
    else:
        _check_box(desc, col)


E2E_N = {"quick": 600, "thorough": 6000}
E2E_SHARDS = 6


def shards(tier, seed):
    lim = LIMITS[tier]
    box = [{"family": "exhaustive", "k": k, **lim} for k in range(NSHARDS)]
    e2e = [{"family": "e2e", "k": k, "n_cases": E2E_N[tier] // E2E_SHARDS, "seed": seed} for k in range(E2E_SHARDS)]
    return e2e + box


def run_shard(shard, col):
    if shard.get("family") == "e2e":
        import accelforge

        accelforge.set_n_parallel_jobs(1)
        col.exhaustive = False
        drive(e2e_cases(), check, n=shard["n_cases"], seed=hash32(shard["seed"], "C30", "e2e", shard["k"]), col=col)
        return
    k = shard["k"]
    for n in range(1, shard["n"] + 1):
        if n % NSHARDS != k:
            continue
        for stride in range(1, shard["stride"] + 1):
            for topo in ("mesh", "all_to_all"):
                for rel in ("Irrelevant", "Relevant"):
                    for vol in shard["volumes"]:
                        col.run_case({"topology": topo, "relevancy": rel, "n": n, "stride": stride, "volume": vol},
                                     check)
    col.exhaustive = True
    col.extra["box_family_shards_completed"] = 1


def replay(desc, col):
    check(desc, col)


REGISTER = True
MANIFEST = {
    "level_text": "Two families. (1) Exhaustive enumeration of a finite box: both topologies x multicast/unicast x every fanout 1..32 (thorough 1..64) x every stride 1..8 (1..12) x volumes {1, 3, 8, 2.5, symbolic V} (thorough adds 0.125, 7, 1000); each case is compared with a route-by-route reference. Inside the box the closed forms of per_loop_transfer_cost are decided. (2) Random exploration end to end: 600 (thorough 6000) generated evaluate_mapping cases per run (one Einsum, MainMemory -> Network mesh/all_to_all -> PE buffers on one or two axes, 1-3 nested spatial loops, >= 40% with one axis split between nested loops, optional temporal loops above); the reported per-tensor hop counts and max link traffic are compared with link-by-link routing of every tile through the whole nest. No counterexample in N cases is not a proof: larger fanouts, distributed sources, loops between the spatial loops, tensors bypassing the PE buffer and imperfect factorisation are not explored.",
    "level_note": "Trusted: vf/ref/routes.py (about 40 lines line/switch routing + about 60 lines nested routing, written from the property text and the Network docstring). The e2e family assumes hierarchical delivery in loop order, non-directional links, refetch on every enclosing iteration; all_to_all only with one axis; fanout-1 loops assert hops only. Two open findings about max_link_traffic (temporal loops above the fanout; an axis split around a loop of another axis) are excluded by exact signature. Only the non-distributed source is covered; max_hops is not part of the property. n = 1 asserts total hops only. Symbolic volume is compared by substitution at V = 0, 1, 3.5 after checking no other symbol occurs.",
    "technique": "exhaustive enumeration against a brute-force route-enumeration reference + property-based end-to-end testing (Hypothesis) against link-by-link routing of the whole fanout nest",
}
