"""C30 — network transfer costs match route enumeration.

Finite domain, enumerated completely: every (topology, relevancy, fanout n, stride, volume)
in the tier's box is compared with vf/ref/routes.py, which places the (non-distributed)
source at node 0 of a line (or on a switch), routes every value link by link and counts link
traversals and per-link load."""

from vf.core import Violation, close, must
from vf.ref import routes as R

PROPERTY = "C30"
LEVEL = "exploration"
EXHAUSTIVE = True
RULE = (
    "Exhaustive enumeration of topology in {mesh, all_to_all} x relevancy in {Irrelevant (multicast), "
    "Relevant (unicast)} x fanout n in 1..N x stride in 1..S x volume in a fixed list (ints, a non-integer, "
    "a sympy symbol); source not physically distributed. total_cost and max_traffic of "
    "get_topology_model(t).per_loop_transfer_cost(...) are compared with explicit route enumeration "
    "(hops*volume, max link load*volume; symbolic volume compared by substitution at 3 points). "
    "Non-trivial: n >= 2 (at least one route exists). Distinct = distinct (topology, relevancy, n, stride, volume). "
    "n = 1 asserts total hops == 0 only."
)
ASSUMPTIONS = [
    "source is not physically distributed (_get_physical_fanout_along == 1), as the property states",
    "the source sits at destination 0's position; destination i is i*stride unit links away (mesh)",
    "on the switch one source->switch->destination delivery is one hop and the switch replicates shared values",
    "max_hops is not part of the property and is not asserted",
    "n = 1 (no route at all): only total hops == 0 is asserted (DESIGN.md §8)",
]
TOLERANCE = "rel 1e-9 on numeric results (closed forms use 0.5*n*(n+1) floats)"
LIMITS = {
    "quick": {"n": 32, "stride": 8, "volumes": [1, 3, 8, 2.5, "V"]},
    "thorough": {"n": 64, "stride": 12, "volumes": [1, 3, 8, 2.5, 0.125, 1000, 7, "V"]},
}
NSHARDS = 6

MUTANTS = [
    {"what": "unicast_cost: arithmetic_sum(n_dsts) instead of arithmetic_sum(n_dsts - 1)", "caught": True,
     "key": "mesh:unicast:total"},
    {"what": "MeshTopologyModel multicast: max_traffic = shape_repeats * volume", "caught": True,
     "key": "mesh:multicast:traffic"},
    {"what": "AllToAllTopologyModel unicast: max_traffic = volume (uplink not accumulated)", "caught": True,
     "key": "all_to_all:unicast:traffic"},
    {"what": "multicast_cost: n_dsts * stride instead of (n_dsts - 1) * stride", "caught": True,
     "key": "mesh:multicast:total"},
    {"what": "AllToAllTopologyModel: n_dsts = shape_repeats (source delivers to itself)", "caught": True,
     "key": "all_to_all:multicast:total"},
]


class _NotDistributed:
    """Stand-in for a flattened-arch source component that is not physically distributed
    (same shape as the stand-in in tests/network/test_topology_model.py)."""

    def _get_physical_fanout_along(self, dim_name, default=1):
        return 1

    def _get_physical_stride_along(self, dim_name):
        raise ValueError(f"dimension {dim_name} not found")


_route_cache: dict = {}


def _routes(topology, n, stride, multicast):
    key = (topology, n, stride if topology == "mesh" else 0, multicast)
    if key not in _route_cache:
        _route_cache[key] = R.route(topology, n, stride, multicast)
    return _route_cache[key]


def _num(x):
    """Numeric value of a result that may be int/float/numpy/sympy-number."""
    return float(x)


def _matches(got, units, volume, sym):
    """got == units * volume ?"""
    if sym is None:
        return close(_num(got), float(units) * float(volume), rel=1e-9, abs_=1e-12)
    import sympy

    g = sympy.sympify(got)
    if not g.free_symbols <= {sym}:
        return False
    for v in (0, 1, 3.5):
        if not close(float(g.subs(sym, v)), float(units) * v, rel=1e-9, abs_=1e-12):
            return False
    return True


def check(desc, col):
    import sympy
    from accelforge.frontend._workload_isl._symbolic import Irrelevant, Relevant
    from accelforge.frontend.arch.components import TopologySpec
    from accelforge.model._looptree.reuse.symbolic._network import get_topology_model

    topo, rel, n, stride, vol = desc["topology"], desc["relevancy"], desc["n"], desc["stride"], desc["volume"]
    multicast = rel == "Irrelevant"
    sym = sympy.Symbol("V", positive=True) if vol == "V" else None
    volume = sym if sym is not None else vol
    relevancy = Irrelevant() if multicast else Relevant("n0")

    model = must(get_topology_model, TopologySpec(topo), what="get_topology_model")
    cost = must(model.per_loop_transfer_cost, relevancy, shape_repeats=n, last_fanout=stride, volume=volume,
                src_component=_NotDistributed(), dim_name="X", what="per_loop_transfer_cost")

    hops, load = _routes(topo, n, stride, multicast)
    max_load = max(load.values()) if load else 0
    kind = "multicast" if multicast else "unicast"
    volclass = "symbolic" if sym is not None else ("int" if float(vol).is_integer() else "frac")
    nontrivial = n >= 2
    col.case(desc, nontrivial,
             labels=[f"{topo}:{kind}", f"volume:{volclass}", "n=1" if n == 1 else ("n=2" if n == 2 else "n>=3"),
                     "stride=1" if stride == 1 else "stride>1"],
             sample={"case": desc, "ref_hops_units": hops, "ref_max_link_units": max_load,
                     "got_total": str(cost.total_cost), "got_max_traffic": str(cost.max_traffic)}
             if nontrivial and (n * 31 + stride * 7) % 97 == 5 else None)

    if not _matches(cost.total_cost, hops, volume, sym):
        raise Violation(
            f"{topo} {kind} n={n} stride={stride} volume={vol}: total_cost={cost.total_cost} but routing every "
            f"value gives {hops} link traversals x volume", key=f"{topo}:{kind}:total")
    if n >= 2 and not _matches(cost.max_traffic, max_load, volume, sym):
        raise Violation(
            f"{topo} {kind} n={n} stride={stride} volume={vol}: max_traffic={cost.max_traffic} but the busiest "
            f"link carries {max_load} x volume", key=f"{topo}:{kind}:traffic")


def shards(tier, seed):
    lim = LIMITS[tier]
    return [{"k": k, **lim} for k in range(NSHARDS)]


def run_shard(shard, col):
    k = shard["k"]
    for n in range(1, shard["n"] + 1):
        if n % NSHARDS != k:
            continue
        for stride in range(1, shard["stride"] + 1):
            for topo in ("mesh", "all_to_all"):
                for rel in ("Irrelevant", "Relevant"):
                    for vol in shard["volumes"]:
                        col.run_case({"topology": topo, "relevancy": rel, "n": n, "stride": stride, "volume": vol},
                                     check)
    col.exhaustive = True


def replay(desc, col):
    check(desc, col)


REGISTER = True
MANIFEST = {
    "level_text": "Exhaustive enumeration of a finite box: both topologies x multicast/unicast x every fanout 1..32 (thorough 1..64) x every stride 1..8 (1..12) x volumes {1, 3, 8, 2.5, symbolic V} (thorough adds 0.125, 7, 1000); each case is compared with a route-by-route reference. Inside the box the property is decided; outside nothing is claimed.",
    "level_note": "Trusted: vf/ref/routes.py (about 40 lines; line/switch routing written from the property text). Only the non-distributed source is covered; max_hops is not part of the property. n = 1 asserts total hops only. Symbolic volume is compared by substitution at V = 0, 1, 3.5 after checking no other symbol occurs.",
    "technique": "exhaustive enumeration against a brute-force route-enumeration reference",
}
