"""C14 — join-stage accelerations never change the result."""

import copy

from hypothesis import strategies as st

from vf.core import Violation, close, drive, hash32
from vf.gen import spec as G

PROPERTY = "C14"
LEVEL = "exploration"
TOLERANCE = "objective vectors matched with rel 1e-5 (float32 tables)"
RULE = (
    "Hypothesis-generated multi-Einsum specs (chains of 2-3 matmuls, 2 elementwise ops, diamond; small bounds; Main + GLB "
    "(+ Reg) with GLB capacities drawn around the tensor footprints so that thresholded joins oversubscribe; metrics "
    "ENERGY, ENERGY|LATENCY, with and without RESOURCE_USAGE; max_fused_loops varied). Run A: the public staged path "
    "(make_pmappings + join_pmappings: dirty joins under resource/objective thresholds, optimality-threshold filtering, "
    "memory skipping at both stages, reservation combining). Run B: ONE exact join (the internal join used for the model, "
    "for_model=True) of pmappings made with can_combine_multiple_runs=True (every memory tracked), with "
    "_combine_reservations=False and the join-stage get_memories_to_track replaced by the identity. The fronts "
    "(energy, latency, and per-memory usage when RESOURCE_USAGE is requested) must be equal as sets of vectors. "
    "Non-trivial: the staged path entered its inner join >= 3 times or some memory was dropped from tracking at either "
    "stage, and the front is non-empty. Distinct = distinct spec descriptor."
)
ASSUMPTIONS = [
    "the lookahead filter is hard-wired on inside the exact join too (C13 is the independent reference for it)",
    "memory capacities are never an exact fit (known finding C08 exact-fit float32)",
]


@st.composite
def cases(draw):
    sp = draw(G.specs(shapes=("chain2", "chain2", "elementwise2", "chain3", "diamond"), levels=(2, 2, 3),
                      metrics=("ENERGY", "ENERGY", "ENERGY|LATENCY", "ENERGY|LATENCY", "ENERGY|RESOURCE_USAGE", "ENERGY|LATENCY|RESOURCE_USAGE"),
                      finite_tp=True, bound_pool=[2, 3, 4, 4, 6, 8, 8, 12], max_ops=3000))
    if draw(st.integers(0, 2)) == 0:
        sp["mapper"]["max_fused_loops"] = draw(st.sampled_from([0, 1, 2]))
    return {"spec": sp}


@st.composite
def weight_pressure_cases(draw):
    """chains whose weights each fit in the GLB next to the activation tiles but not all together:
    the resource-tolerant dirty join then oversubscribes the GLB and must be retried"""
    k = draw(st.sampled_from([2, 2, 3]))
    es, rvs = G.chain(k)
    n = draw(st.sampled_from([2, 3, 4]))
    bounds = {rv: n for rv in rvs}
    bounds["m"] = draw(st.sampled_from([4, 6, 8]))
    for rv in rvs[1:]:
        if draw(st.integers(0, 3)) == 0:
            bounds[rv] = draw(st.sampled_from([2, 3, 4, 6]))
    wsz = [bounds[f"n{i}"] * bounds[f"n{i+1}"] for i in range(k)]
    tiles = 3 * max(bounds[f"n{i}"] for i in range(k + 1))
    frac = draw(st.sampled_from([0.8, 0.85, 0.9, 0.95, 1.0]))
    vals = int(sum(wsz) * frac) + draw(st.integers(0, tiles))
    bits = 8
    nodes = [{"type": "Memory", "name": "Main", "size": "inf", "keep": "~Intermediates", "may_keep": "All",
              "read": [draw(st.sampled_from([20, 50, 100])), "inf"], "write": [draw(st.sampled_from([20, 50, 100])), "inf"], "leak": 0},
             {"type": "Memory", "name": "GLB", "size": vals * bits + bits / 2, "keep": "~Main", "may_keep": "All",
              "read": [1, draw(st.sampled_from(["inf", 2, 4]))], "write": [1, draw(st.sampled_from(["inf", 2, 4]))], "leak": 0},
             {"type": "Compute", "name": "MAC", "compute": [1, 1], "leak": 0}]
    sp = {"shape": f"chain{k}-weights", "einsums": es, "bounds": bounds, "bits": {"All": bits}, "n_instances": 1, "nodes": nodes,
          "mapper": {"metrics": draw(st.sampled_from(["ENERGY", "ENERGY", "ENERGY|LATENCY"]))}}
    return {"spec": sp}


@st.composite
def near_total_cases(draw):
    """GLB a little smaller than the sum of all tensors: 'big enough for everything' memory skipping is
    at its decision boundary"""
    shape = draw(st.sampled_from(["chain2", "elementwise2", "chain2", "diamond"]))
    es, rvs = {"chain2": G.chain(2), "elementwise2": G.elementwise(2), "diamond": G.diamond()}[shape]
    bounds = {rv: draw(st.sampled_from([2, 2, 3, 4])) for rv in rvs}
    wl = {"einsums": es, "bounds": bounds}
    tot = sum(G.tensor_sizes(wl).values())
    frac = draw(st.sampled_from([0.6, 0.7, 0.8, 0.9, 0.97, 1.05]))
    vals = max(2, int(tot * frac))
    bits = 8
    nodes = [{"type": "Memory", "name": "Main", "size": "inf", "keep": "~Intermediates", "may_keep": "All",
              "read": [draw(st.sampled_from([10, 50])), "inf"], "write": [draw(st.sampled_from([10, 50])), "inf"], "leak": 0},
             {"type": "Memory", "name": "GLB", "size": vals * bits + bits / 2, "keep": "~Main", "may_keep": "All",
              "read": [1, "inf"], "write": [1, "inf"], "leak": 0},
             {"type": "Compute", "name": "MAC", "compute": [1, 1], "leak": 0}]
    sp = {"shape": shape + "-neartotal", "einsums": es, "bounds": bounds, "bits": {"All": bits}, "n_instances": 1, "nodes": nodes,
          "mapper": {"metrics": draw(st.sampled_from(["ENERGY", "ENERGY|LATENCY"]))}}
    return {"spec": sp}


@st.composite
def unfused_branch_cases(draw):
    """two independent producers and one consumer with NO fused loops (max_fused_loops = 0): the first producer's output is
    held whole in the GLB across the second producer, which does not use it; the GLB capacity is drawn around the sizes of
    the two intermediates so that it binds exactly there ('memory never reserved across fused loops' skipping is at its
    decision boundary)"""
    es, rvs = G.diamond()
    bounds = {rv: draw(st.sampled_from([2, 2, 3, 4])) for rv in rvs}
    if draw(st.booleans()):
        bounds["k1"] = bounds["k0"] * draw(st.sampled_from([1, 2]))
    bits = 8
    wl = {"einsums": es, "bounds": bounds}
    sizes = G.tensor_sizes(wl)
    u = sizes["U"]
    lo, hi = max(3, u // 2), 2 * u + max(sizes.values())
    vals = draw(st.integers(lo, hi))
    nodes = [{"type": "Memory", "name": "Main", "size": "inf", "keep": "~Intermediates", "may_keep": "All",
              "read": [draw(st.sampled_from([10, 50])), "inf"], "write": [draw(st.sampled_from([10, 50])), "inf"], "leak": 0},
             {"type": "Memory", "name": "GLB", "size": vals * bits + bits / 2, "keep": "~Main", "may_keep": "All",
              "read": [1, "inf"], "write": [1, "inf"], "leak": 0},
             {"type": "Compute", "name": "MAC", "compute": [1, 1], "leak": 0}]
    sp = {"shape": "diamond-unfused", "einsums": es, "bounds": bounds, "bits": {"All": bits}, "n_instances": 1, "nodes": nodes,
          "mapper": {"metrics": draw(st.sampled_from(["ENERGY", "ENERGY", "ENERGY|LATENCY"])), "max_fused_loops": 0}}
    return {"spec": sp}


def _front(mappings, with_usage, mems):
    df = mappings.data
    out = []
    usage = mappings.resource_usage(list_if_one_mapping=True) if with_usage else {}
    for i in range(len(df)):
        v = []
        for c in ("Total<SEP>energy", "Total<SEP>latency"):
            if c in df.columns:
                v.append(float(df[c].iloc[i]))
        if with_usage:
            v += [float(usage.get(m, [0.0] * len(df))[i]) for m in mems]
        out.append(tuple(v))
    return sorted(set(out))


def _same(a, b):
    return len(a) == len(b) and all(close(x, y, rel=1e-5, abs_=1e-9) for x, y in zip(a, b))


def check(desc, col):
    import accelforge as af
    from accelforge.mapper.FFM import main as M
    from accelforge.mapper.FFM._join_pmappings import join_pmappings as JP
    from accelforge.mapper.FFM._make_pmappings import make_pmappings as MP

    af.set_n_parallel_jobs(1)
    sp = desc["spec"]
    with_usage = "RESOURCE_USAGE" in sp["mapper"]["metrics"]
    mems = [n["name"] for n in sp["nodes"] if n["type"] == "Memory" and n["size"] != "inf"]
    counters = {"inner_joins": 0, "join_dropped": 0, "pm_dropped": 0}

    # ---- run A: public staged path, instrumented with counting wrappers ----------------------
    spec_a = G.build_spec(sp)
    metrics = spec_a.mapper.metrics
    orig_join, orig_gmt, orig_pm_gmt = JP.join_pmappings, JP.get_memories_to_track, MP.get_memories_to_track

    def count_join(*a, **k):
        counters["inner_joins"] += 1
        return orig_join(*a, **k)

    def count_gmt(pg, print_progress=True):
        r = orig_gmt(pg, print_progress)
        counters["join_dropped"] += len(r[1])
        return r

    def count_pm_gmt(*a, **k):
        r = orig_pm_gmt(*a, **k)
        counters["pm_dropped"] += len(r[1]) + len(r[2])
        return r

    JP.join_pmappings, JP.get_memories_to_track, MP.get_memories_to_track = count_join, count_gmt, count_pm_gmt
    err_a = front_a = None
    try:
        try:
            pm = M.make_pmappings(spec_a, print_progress=False)
            res_a = M.join_pmappings(pm, metrics=metrics, print_progress=False)
            front_a = _front(res_a, with_usage, mems)
        except Exception as e:  # noqa: BLE001
            err_a = e
    finally:
        JP.join_pmappings, JP.get_memories_to_track, MP.get_memories_to_track = orig_join, orig_gmt, orig_pm_gmt

    # ---- run B: one exact join, everything tracked ---------------------------------------------
    spec_b = G.build_spec(sp)
    spec_b.mapper._combine_reservations = False
    JP.get_memories_to_track = lambda pg, print_progress=True: (pg, type(orig_gmt({}, False)[1])())
    err_b = front_b = None
    try:
        try:
            pm_b = M.make_pmappings(spec_b, can_combine_multiple_runs=True, print_progress=False)
            res_b = JP.clean_compress_and_join_pmappings(pmappings=pm_b, metrics=metrics, for_model=True,
                                                         print_progress=False)
            front_b = _front(res_b, with_usage, mems)
        except Exception as e:  # noqa: BLE001
            err_b = e
    finally:
        JP.get_memories_to_track = orig_gmt

    def infeasible(e):
        return e is not None and any(s in str(e).lower() for s in ("no pmappings", "no mappings", "no valid"))

    nontrivial = bool(front_a) and (counters["inner_joins"] >= 3 or counters["join_dropped"] or counters["pm_dropped"])
    labels = [f"shape:{sp['shape']}", f"metrics:{sp['mapper']['metrics']}", f"inner_joins:{min(counters['inner_joins'], 6)}",
              "join_stage_dropped_memory" if counters["join_dropped"] else "join_stage_tracks_all",
              "pm_stage_dropped_memory" if counters["pm_dropped"] else "pm_stage_tracks_all",
              "infeasible" if infeasible(err_a) else f"front:{min(len(front_a or []), 5)}"]
    col.case(sp, nontrivial, labels, sample={"bounds": sp["bounds"], "shape": sp["shape"], "mapper": sp["mapper"],
                                             "sizes": {n["name"]: n.get("size") for n in sp["nodes"] if n["type"] == "Memory"},
                                             "counters": counters, "front_staged": front_a, "front_exact": front_b})
    if err_a is not None and not infeasible(err_a):
        raise Violation(f"staged join raised {type(err_a).__name__}: {str(err_a)[:300]}", key=f"crash-staged:{type(err_a).__name__}")
    if err_b is not None and not infeasible(err_b):
        raise Violation(f"exact join raised {type(err_b).__name__}: {str(err_b)[:300]}", key=f"crash-exact:{type(err_b).__name__}")
    if infeasible(err_a) != infeasible(err_b):
        raise Violation(f"staged path {'finds no mapping' if infeasible(err_a) else 'returns ' + str(front_a)} but the exact join "
                        f"{'finds no mapping' if infeasible(err_b) else 'returns ' + str(front_b)}", key="feasibility-differs")
    if infeasible(err_a):
        return
    lost = [v for v in front_b if not any(_same(v, w) for w in front_a)]
    extra = [v for v in front_a if not any(_same(v, w) for w in front_b)]
    if lost or extra:
        key = "front-differs:" + ("lost" if lost else "extra")
        worse_only = bool(lost) and all(any(all(x <= y * (1 + 1e-5) + 1e-9 for x, y in zip(w, v)) for w in front_b) for v in extra)
        if sp.get("shape") == "diamond-unfused" and not with_usage and worse_only:
            # open finding (known_findings.json C14): without fused loops the staged path returns a VALID but worse optimum
            # on two-producer/one-consumer workloads; a staged result that is better than the exact join (an invalid
            # mapping: a staged point that no exact-front point weakly dominates) or any difference elsewhere keeps the ordinary key
            key = "front-differs:unfused-branch:staged-optimum-worse"
        raise Violation(f"fronts differ: exact-join points missing from the staged result {lost[:4]}; staged points not in the "
                        f"exact front {extra[:4]}; counters={counters}", key=key)


N = {"quick": 16, "thorough": 160}
NSHARDS = 16
QUICK_BUDGET_S = 500


def shards(tier, seed):
    return [{"k": k, "n": max(1, N[tier] // NSHARDS), "seed": seed} for k in range(NSHARDS)]


def run_shard(shard, col):
    drive(cases(), check, n=shard["n"], seed=hash32(shard["seed"], "C14", shard["k"]), col=col, shrink=False)
    drive(weight_pressure_cases(), check, n=shard["n"], seed=hash32(shard["seed"], "C14w", shard["k"]), col=col, shrink=False)
    drive(near_total_cases(), check, n=shard["n"], seed=hash32(shard["seed"], "C14t", shard["k"]), col=col, shrink=False)
    drive(unfused_branch_cases(), check, n=shard["n"], seed=hash32(shard["seed"], "C14u", shard["k"]), col=col, shrink=False)


def replay(desc, col):
    check(desc, col)

REGISTER = True
MUTANTS = [
    {"what": "OptimalityThresholder keeps only rows strictly better than 0.9x the dirty front", "caught": True, "how": "front-differs:lost / feasibility-differs"},
    {"what": "multi_strategy_join accepts a dirty result oversubscribed up to 1.5x", "caught": False,
     "note": "in this domain the resource-tolerant dirty join never produced an oversubscribed result (0 of 120 probed specs re-entered the threshold loop; prune_with_tolerance rebuilds the tables without the excess tolerance), so the retry path is not reached"},
    {"what": "join-stage get_memories_to_track ignores memories whose summed reservations are <= 1.5", "caught": False,
     "note": "join-stage dropping happened in 2 of 48 cases and capacity was not binding in them"},
    {"what": "pmapping-stage get_memories_to_track ignores memories with usage <= 1.6", "caught": False,
     "note": "capacities in [total/1.6, total] do not bind the optimum of these small workloads; a coarser threshold would be needed"},
]
MANIFEST = {
    "level_text": "Differential testing of the public staged join (dirty objective/resource-threshold joins, optimality-threshold filtering, memory skipping at both stages, reservation combining) against one exact join of fully tracked pmappings on generated 2-3 Einsum specs (random, weight-pressure and near-total-capacity families); fronts must be equal as sets of objective vectors. No counterexample in N specs; not a proof. Sensitivity is uneven: objective-threshold filtering is well exercised, the oversubscription-retry path is not reached on workloads this small.",
    "level_note": "Trusted: the internal exact join (for_model=True) as reference, with join-stage memory skipping disabled by replacing get_memories_to_track and pmappings generated with can_combine_multiple_runs=True; the lookahead filter stays on in both. Capacities never an exact fit (open finding C08).",
    "technique": "property-based differential testing: staged vs exact join (Hypothesis)",
}
