"""C24 — workload geometry (bounds, operation counts, tensor sizes, stride/halo) matches the
enumerated iteration space.

Descriptor (plain JSON)::

    {"einsums": [{"name": "E0",
                  "accesses": [{"tensor": "I0", "output": false, "list_form": false,
                                "ranks": [{"rank": "H0", "terms": [["p0", 1], ["r0", 1]],
                                           "const": 1, "style": 0}, ...]}, ...],
                  "iss": [["p0", 4], ...],           # Einsum.iteration_space_shape "0 <= p0 < 4"
                  "rank_sizes": {"M0": 3}}, ...],    # Einsum.rank_sizes
     "wiss": {"m0": 3},                              # Workload.iteration_space_shape
     "wrs": {"N0": 4}}                               # Workload.rank_sizes
"""

from hypothesis import strategies as st

from vf.core import Violation, drive, must, hash32
from vf.ref import affine as R

PROPERTY = "C24"
LEVEL = "exploration"
RULE = (
    "Hypothesis-generated workloads of 1-3 Einsums (verbose tensor_accesses form), up to 5 rank variables each "
    "with bounds 1..6 expressed through Workload.iteration_space_shape, Einsum.iteration_space_shape, "
    "Workload.rank_sizes or Einsum.rank_sizes (rank sizes only on ranks indexed by a single variable, so the "
    "iteration space stays a box); tensors with 1-3 ranks, each rank projection x, a*x+c or a*x+b*y+c "
    "(a,b in 1..3, c in 0..2); later Einsums re-read earlier tensors (intermediates and shared inputs) through "
    "new projections. Everything is compared with a brute-force enumeration (vf/ref/affine.py). "
    "Non-trivial: at least one two-variable projection. Distinct = distinct descriptor."
)
ASSUMPTIONS = [
    "iteration spaces are boxes starting at 0 (every constraint mentions one rank variable)",
    "a tensor's data space is the intersection of the images over its writer Einsums, or over its reader "
    "Einsums when nothing writes it (docstring of get_tensor_data_space); cases whose intersection is empty "
    "are rejected",
    "for a non-box image either an exception (RuntimeError/ValueError/NotImplementedError) or the exact point "
    "count is accepted; any other number is the failure",
    "halo of (rank, var) = max - min of the rank index while var is held fixed (DESIGN.md C24); stride = "
    "coefficient of var",
    "compute_dense_tile_occupancy is not asserted (the statement does not mention it)",
]
TOLERANCE = "exact integers"

KEY_HALO_CONST = "halo-includes-constant-term"


# ---------------------------------------------------------------------------
# generator
# ---------------------------------------------------------------------------

LETTERS = "mnkpqrsc"
COEF = [1, 1, 1, 1, 2, 2, 3]
CONST = [0, 0, 0, 0, 0, 0, 0, 0, 1, 2]
BOUND = [1, 2, 2, 3, 3, 4, 4, 5, 6]


def _single_ok(r):
    """rank projection a*x + c with 0 <= c < a: a rank size keeps x in [0, ...]"""
    return len(r["terms"]) == 1 and 0 <= r["const"] < r["terms"][0][1]


@st.composite
def workloads(draw):
    n_e = draw(st.sampled_from([1, 1, 2, 2, 2, 3]))
    tensors = {}            # name -> [rank names]
    einsums = []
    bounds = {}
    all_vars = []
    for i in range(n_e):
        nv = draw(st.integers(3, 5))
        pool, fresh = [], iter(LETTERS)
        for _ in range(nv):
            shared = [v for v in all_vars if v not in pool]
            if shared and draw(st.integers(0, 3)) == 0:
                pool.append(draw(st.sampled_from(shared)))
            else:
                v = next(fresh) + str(i)
                while v in pool:
                    v = next(fresh) + str(i)
                pool.append(v)

        def draw_proj(taken):
            """one rank projection; variables already used by this tensor are avoided 9 times in 10
            (a variable in two ranks makes the image a diagonal, i.e. never a box)"""
            def pick(exclude=()):
                fresh_ = [v for v in pool if v not in taken and v not in exclude]
                if fresh_ and draw(st.integers(0, 9)) != 0:
                    v = draw(st.sampled_from(fresh_))
                else:
                    v = draw(st.sampled_from([v for v in pool if v not in exclude]))
                taken.append(v)
                return v

            kind = draw(st.sampled_from(["plain"] * 7 + ["two"] * 3 + ["one"]))
            n_fresh = len([v for v in pool if v not in taken])
            if kind == "plain" or (kind == "two" and n_fresh < 2 and draw(st.integers(0, 9)) != 0):
                return [[pick(), 1]], 0
            if kind == "one":
                a, c = draw(st.sampled_from([(1, 1), (1, 2), (2, 0), (2, 1), (3, 0), (3, 2), (2, 2)]))
                return [[pick(), a]], c
            x = pick()
            y = pick(exclude=(x,))
            return [[x, draw(st.sampled_from(COEF))], [y, draw(st.sampled_from(COEF))]], draw(st.sampled_from(CONST))

        def new_tensor(name):
            k = draw(st.integers(1, 3))
            ranks, names, taken = [], [], []
            for j in range(k):
                if j and all(v in taken for v in pool) and draw(st.integers(0, 9)) != 0:
                    break   # no unused variable left: stop adding ranks (mostly)
                terms, c = draw_proj(taken)
                if len(terms) == 1 and terms[0][1] == 1 and c == 0 and terms[0][0].upper() not in names:
                    rn = terms[0][0].upper()
                else:
                    rn = "HWVU"[j] + name
                names.append(rn)
                ranks.append({"rank": rn, "terms": terms, "const": c, "style": draw(st.integers(0, 2))})
            tensors[name] = names
            return ranks

        def old_tensor(name):
            ranks, taken = [], []
            for rn in tensors[name]:
                terms, c = draw_proj(taken)
                ranks.append({"rank": rn, "terms": terms, "const": c, "style": draw(st.integers(0, 2))})
            return ranks

        accesses = []
        n_in = draw(st.integers(1, 2))
        used_t = []
        for j in range(n_in):
            cands = [t for t in tensors if t not in used_t]
            inter = [t for t in cands if t.startswith("T")]   # written by an earlier Einsum
            if inter and draw(st.integers(0, 9)) < 8:
                cands = inter
            if cands and draw(st.integers(0, 9)) < 5:
                t = draw(st.sampled_from(cands))
                accesses.append({"tensor": t, "output": False, "ranks": old_tensor(t)})
            else:
                t = ("I", "W")[j] + str(i)
                accesses.append({"tensor": t, "output": False, "ranks": new_tensor(t)})
            used_t.append(t)
        t = "T" + str(i)
        accesses.append({"tensor": t, "output": True, "ranks": new_tensor(t)})
        for a in accesses:
            a["list_form"] = bool(
                draw(st.booleans())
                and all(len(r["terms"]) == 1 and r["terms"][0][1] == 1 and r["const"] == 0
                        and r["rank"] == r["terms"][0][0].upper() for r in a["ranks"]))
        used = []
        for a in accesses:
            for r in a["ranks"]:
                for v, _ in r["terms"]:
                    if v not in used:
                        used.append(v)
        for v in used:
            if v not in all_vars:
                all_vars.append(v)
                bounds[v] = draw(st.sampled_from(BOUND))
        einsums.append({"name": "E" + str(i), "accesses": accesses, "iss": [], "rank_sizes": {}, "_vars": used})

    # ---- where each variable's bound is written -------------------------------------------
    wiss, wrs = {}, {}

    def rank_uses(rank, es):
        return [r for e in es for a in e["accesses"] for r in a["ranks"] if r["rank"] == rank]

    def rank_for(v, es):
        """a rank through which v can be bounded by a rank size, in the Einsums ``es``"""
        for e in es:
            for a in e["accesses"]:
                for r in a["ranks"]:
                    if [t[0] for t in r["terms"]] == [v] and _single_ok(r):
                        if all(_single_ok(u) for u in rank_uses(r["rank"], es)):
                            return r
        return None

    for v in all_vars:
        style = draw(st.sampled_from(["wiss", "wiss", "eiss", "wrs", "wrs", "ers"]))
        n = bounds[v]
        users = [e for e in einsums if v in e["_vars"]]
        if style == "wrs":
            r = rank_for(v, einsums)
            if r is None or any(r["rank"] in e["rank_sizes"] for e in einsums):
                style = "wiss"
            else:
                a, c = r["terms"][0][1], r["const"]
                wrs.setdefault(r["rank"], a * (n - 1) + c + 1)
                for e in users:  # Einsums in which v does not touch that rank
                    if not any([t[0] for t in u["terms"]] == [v] for u in rank_uses(r["rank"], [e])):
                        e["iss"].append([v, n])
        if style == "ers":
            for e in users:
                r = rank_for(v, [e])
                if r is None or r["rank"] in wrs:
                    e["iss"].append([v, n])
                else:
                    a, c = r["terms"][0][1], r["const"]
                    e["rank_sizes"].setdefault(r["rank"], a * (n - 1) + c + 1)
        if style == "eiss":
            for e in users:
                e["iss"].append([v, n])
        if style == "wiss":
            wiss[v] = n
    for e in einsums:
        del e["_vars"]
    return {"einsums": einsums, "wiss": wiss, "wrs": wrs}


# ---------------------------------------------------------------------------
# building the accelforge input
# ---------------------------------------------------------------------------

def render(r):
    terms, c, style = r["terms"], r["const"], r.get("style", 0)
    parts = []
    for v, a in terms:
        if a == 1:
            parts.append(v)
        elif style == 1:
            parts.append(f"{v}*{a}")
        elif style == 2:
            parts.append(f"{v} * {a}")
        else:
            parts.append(f"{a}*{v}")
    if c:
        parts.append(str(c))
    return " + ".join(parts) if style != 1 else "+".join(parts)


def workload_kwargs(desc):
    es = []
    for e in desc["einsums"]:
        tas = []
        for a in e["accesses"]:
            if a.get("list_form"):
                proj = [r["terms"][0][0] for r in a["ranks"]]
            else:
                proj = {r["rank"]: render(r) for r in a["ranks"]}
            ta = {"name": a["tensor"], "projection": proj}
            if a["output"]:
                ta["output"] = True
            tas.append(ta)
        ent = {"name": e["name"], "tensor_accesses": tas}
        if e["iss"]:
            ent["iteration_space_shape"] = [f"0 <= {v} < {n}" for v, n in e["iss"]]
        if e["rank_sizes"]:
            ent["rank_sizes"] = dict(e["rank_sizes"])
        es.append(ent)
    kw = {"einsums": es, "bits_per_value": {"All": 8}}
    if desc["wiss"]:
        kw["iteration_space_shape"] = {v: f"0 <= {v} < {n}" for v, n in desc["wiss"].items()}
    if desc["wrs"]:
        kw["rank_sizes"] = dict(desc["wrs"])
    return kw


# ---------------------------------------------------------------------------
# reference view of the descriptor
# ---------------------------------------------------------------------------

def _proj(r):
    return {"terms": [list(t) for t in r["terms"]], "const": r["const"]}


def ref_einsum(desc, e):
    """-> (ordered variables, {var: values})"""
    order = []
    for a in e["accesses"]:
        for r in a["ranks"]:
            for v, _ in r["terms"]:
                if v not in order:
                    order.append(v)
    cons = [({"terms": [[v, 1]], "const": 0}, n) for v, n in e["iss"]]
    cons += [({"terms": [[v, 1]], "const": 0}, n) for v, n in desc["wiss"].items() if v in order]
    for a in e["accesses"]:
        for r in a["ranks"]:
            if r["rank"] in e["rank_sizes"]:
                cons.append((_proj(r), e["rank_sizes"][r["rank"]]))
            elif r["rank"] in desc["wrs"]:
                cons.append((_proj(r), desc["wrs"][r["rank"]]))
    for p, _ in cons:
        if len(p["terms"]) != 1:
            raise AssertionError("generator produced a multi-variable constraint")
    return order, R.var_values(cons, order)


ACCEPTED_ERRORS = (RuntimeError, ValueError, NotImplementedError)


def check(desc, col):
    from accelforge.frontend.workload import Workload
    from accelforge.frontend._workload_isl._isl import get_rank_variable_bounds
    from accelforge.frontend._workload_isl._symbolic import get_stride_and_halo

    # ---- reference ------------------------------------------------------------------------
    spaces = {}
    for e in desc["einsums"]:
        order, values = ref_einsum(desc, e)
        if any(not vals for vals in values.values()):
            col.reject("empty-iteration-space")
            return
        spaces[e["name"]] = (order, values)
    tensor_names = []
    for e in desc["einsums"]:
        for a in e["accesses"]:
            if a["tensor"] not in tensor_names:
                tensor_names.append(a["tensor"])
    images, lenient, n_canon_differ = {}, set(), 0
    for t in tensor_names:
        writers = [(e, a) for e in desc["einsums"] for a in e["accesses"] if a["tensor"] == t and a["output"]]
        readers = [(e, a) for e in desc["einsums"] for a in e["accesses"] if a["tensor"] == t and not a["output"]]
        canon = writers or readers
        rank_order = [r["rank"] for r in canon[0][1]["ranks"]]
        sets = []
        for e, a in canon:
            order, values = spaces[e["name"]]
            by_rank = {r["rank"]: _proj(r) for r in a["ranks"]}
            sets.append(R.image(values, order, [by_rank[rn] for rn in rank_order]))
        S = set.intersection(*sets)
        if any(s != sets[0] for s in sets):
            n_canon_differ += 1
        if not S:
            col.reject("empty-tensor-intersection")
            return
        images[t] = S
        # An explicit error is acceptable as soon as ONE canonical access has a non-box image (the
        # statement speaks of the image through "the tensor access"); if every access image is a box
        # so is their intersection and the exact size is required.
        if any(not R.is_box(s) for s in sets):
            lenient.add(t)
        assert t in lenient or R.is_box(S)

    # ---- classification -------------------------------------------------------------------
    all_ranks = [r for e in desc["einsums"] for a in e["accesses"] for r in a["ranks"]]
    two = [r for r in all_ranks if len(r["terms"]) == 2]
    labels = [f"einsums:{len(desc['einsums'])}"]
    if two:
        labels.append("has-two-var-projection")
    if any(r["const"] for r in all_ranks):
        labels.append("has-constant")
    if any(r["const"] for r in two):
        labels.append("two-var-with-constant")
    if any(c > 1 for r in all_ranks for _, c in r["terms"]):
        labels.append("has-coefficient>1")
    nonbox = [t for t in tensor_names if t in lenient]
    labels.append("has-nonbox-image" if nonbox else "all-images-box")
    for e in desc["einsums"]:
        for a in e["accesses"]:
            if any(len(r["terms"]) == 2 for r in a["ranks"]):
                labels.append("two-var-image:" + ("nonbox" if a["tensor"] in nonbox else "box"))
            vs = [v for r in a["ranks"] for v, _ in r["terms"]]
            if len(set(vs)) < len(vs):
                labels.append("var-in-two-ranks-of-a-tensor")
    if n_canon_differ:
        labels.append("canonical-images-differ")
    if any(sum(1 for e in desc["einsums"] for a in e["accesses"] if a["tensor"] == t) > 1 for t in tensor_names):
        labels.append("tensor-in-several-einsums")
    if desc["wrs"]:
        labels.append("bound-via:workload.rank_sizes")
    if desc["wiss"]:
        labels.append("bound-via:workload.iteration_space_shape")
    if any(e["rank_sizes"] for e in desc["einsums"]):
        labels.append("bound-via:einsum.rank_sizes")
    if any(e["iss"] for e in desc["einsums"]):
        labels.append("bound-via:einsum.iteration_space_shape")
    if any(a.get("list_form") for e in desc["einsums"] for a in e["accesses"]):
        labels.append("list-form-projection")
    labels = sorted(set(labels))
    col.case(desc, bool(two), labels,
             sample={"workload": workload_kwargs(desc),
                     "ref_sizes": {t: (len(images[t]) if t not in nonbox else "non-box") for t in tensor_names}})

    # ---- code under test --------------------------------------------------------------------
    w = must(Workload, what="Workload(...)", **workload_kwargs(desc))
    total = 0
    for e in desc["einsums"]:
        order, values = spaces[e["name"]]
        want = {v: values[v][-1] - values[v][0] + 1 for v in order}
        got = must(get_rank_variable_bounds, w, e["name"], what="get_rank_variable_bounds")
        got = {str(k): int(v) for k, v in got.items()}
        if got != want:
            raise Violation(f"rank-variable bounds of {e['name']}: got {got}, enumeration gives {want}; "
                            f"workload={workload_kwargs(desc)}", key="bounds")
        n_ops = 1
        for v in order:
            n_ops *= len(values[v])
        total += n_ops
        got_n = must(w.n_computes, e["name"], what="Workload.n_computes(einsum)")
        if int(got_n) != n_ops:
            raise Violation(f"n_computes({e['name']}) = {got_n}, enumeration gives {n_ops}; "
                            f"workload={workload_kwargs(desc)}", key="n_computes")
    got_n = must(w.n_computes, what="Workload.n_computes()")
    if int(got_n) != total:
        raise Violation(f"n_computes() = {got_n}, enumeration gives {total}", key="n_computes-total")

    for t in tensor_names:
        S = images[t]
        if t not in nonbox:
            got = must(w.get_tensor_size, t, what=f"get_tensor_size({t}) on a box image")
            if int(got) != len(S):
                raise Violation(f"get_tensor_size({t}) = {got}, the projected image has {len(S)} points; "
                                f"workload={workload_kwargs(desc)}", key="tensor-size")
        else:
            try:
                got = w.get_tensor_size(t)
            except ACCEPTED_ERRORS:
                continue
            except Exception as ex:  # noqa: BLE001
                raise Violation(f"get_tensor_size({t}) on a non-box image crashed with {type(ex).__name__}: {ex}",
                                key="nonbox-crash:" + type(ex).__name__)
            if int(got) != len(S):
                raise Violation(f"get_tensor_size({t}) = {got} for a non-box image with {len(S)} points (an "
                                f"explicit error or the exact count is required); workload={workload_kwargs(desc)}",
                                key="nonbox-wrong-size")

    sh = must(get_stride_and_halo, w, what="get_stride_and_halo")
    sh = {(str(k[0]), str(k[1])): {(str(a), str(b)): v for (a, b), v in d.items()} for k, d in sh.items()}
    halo_other, halo_const = [], []
    for e in desc["einsums"]:
        order, values = spaces[e["name"]]
        for a in e["accesses"]:
            entry = sh.get((e["name"], a["tensor"]))
            if entry is None:
                raise Violation(f"get_stride_and_halo has no entry for {(e['name'], a['tensor'])}", key="stride-halo-missing")
            want_keys = {(r["rank"], v) for r in a["ranks"] for v, _ in r["terms"]}
            if set(entry) != want_keys:
                raise Violation(f"stride/halo pairs of {(e['name'], a['tensor'])}: got {sorted(entry)}, want "
                                f"{sorted(want_keys)}", key="stride-halo-pairs")
            for r in a["ranks"]:
                for v, _ in r["terms"]:
                    ws, wh = R.stride_and_halo(_proj(r), v, values)
                    gs, gh = entry[(r["rank"], v)]
                    try:
                        gs, gh = int(gs), int(gh)
                    except TypeError:
                        raise Violation(f"stride/halo of {(r['rank'], v)} is not a number: {(gs, gh)}", key="stride-halo-symbolic")
                    if gs != ws:
                        raise Violation(f"stride of ({r['rank']}, {v}) in {e['name']}/{a['tensor']} with projection "
                                        f"'{render(r)}': got {gs}, coefficient is {ws}", key="stride")
                    if gh != wh:
                        const_explains = bool(r["const"]) and gh == wh + r["const"]
                        msg = (f"halo of ({r['rank']}, {v}) in {e['name']}/{a['tensor']} with projection '{render(r)}' and "
                               f"bounds { {u: len(values[u]) for u, _ in r['terms']} }: got {gh}, the rank index spans "
                               f"max-min = {wh} while {v} is fixed"
                               + (f" (got = expected + constant term {r['const']})" if const_explains else ""))
                        (halo_const if const_explains else halo_other).append(msg)
    # a mismatch that the known root cause does not explain is reported first
    if halo_other:
        raise Violation(halo_other[0], key="halo")
    if halo_const:
        raise Violation(halo_const[0], key=KEY_HALO_CONST)


N = {"quick": 480, "thorough": 4800}
NSHARDS = {"quick": 6, "thorough": 16}


def shards(tier, seed):
    return [{"k": k, "n": N[tier] // NSHARDS[tier], "seed": seed} for k in range(NSHARDS[tier])]


def run_shard(shard, col):
    drive(workloads(), check, n=shard["n"], seed=hash32(shard["seed"], "C24", shard["k"]), col=col)


def replay(desc, col):
    check(desc, col)


# Scratch worktree = HEAD + regress/C24/suggested_fix.diff (so that the genuine halo defect does not
# mask the mutants); quick tier, seed 1; every mutant printed VIOLATION and exited 1.
MUTANTS = [
    {"what": "_isl.get_dim_bounds: `max - min + 1` -> `max - min`", "caught": True, "keys": ["bounds"]},
    {"what": "_isl._card_box: `max - min + 1` -> `max - min`", "caught": True, "keys": ["n_computes"]},
    {"what": "_isl.get_tensor_data_space: intersect -> union over the canonical Einsums", "caught": True,
     "keys": ["crash:RuntimeError"], "note": "the union of two different box images is not a box, so the box size is refused"},
    {"what": "_isl.get_tensor_data_space: reader Einsums are canonical even when the tensor is written", "caught": True,
     "keys": ["tensor-size", "nonbox-wrong-size", "crash:RuntimeError"]},
    {"what": "_isl.get_tensor_size: is_box() test dropped (bounding box returned for non-box images)", "caught": True,
     "keys": ["nonbox-wrong-size"]},
    {"what": "_symbolic.get_stride_and_halo_of_einsum: coeff() of the first variable of the rank instead of rank_var",
     "caught": True, "keys": ["stride"]},
    {"what": "_symbolic.get_stride_and_halo_of_einsum: variable not pinned to one value when computing the halo",
     "caught": True, "keys": ["halo"]},
    {"what": "workload.get_iteration_space_shape_isl_string: rank size bound `<` -> `<=`", "caught": True, "keys": ["bounds"]},
    {"what": "unchanged tree (the genuine defect): halo = value at the maxima, constant term included", "caught": True,
     "keys": ["halo-includes-constant-term"]},
]

REGISTER = True
MANIFEST = {
    "level_text": "Random exploration: Hypothesis-generated 1-3-Einsum workloads with affine projections a*x+b*y+c "
                  "(bounds <= 6) compared with a brute-force enumeration of the iteration space and of every "
                  "projected image; nothing is claimed beyond the sampled inputs.",
    "level_note": "Trusted: vf/ref/affine.py (enumeration). Box-shaped, 0-based iteration spaces only; tensor data "
                  "space read as the intersection over writer (else reader) Einsums; halo read as max-min of the rank "
                  "index with the variable fixed. compute_dense_tile_occupancy is not asserted.",
    "technique": "property-based testing (Hypothesis) against a brute-force enumeration model",
}
