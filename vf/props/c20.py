"""C20 — mapper results do not depend on scheduling, hashing or caching.

Every generated spec is mapped under a reference configuration (1 worker, no schedule hook, no cache,
PYTHONHASHSEED of the worker = 0) and under ~10 other configurations; the returned fronts must be equal as
sorted lists of (objective vector, canonical mapping string).

Configurations that need another hash seed run in helper subprocesses (`python -m vf.props.c20 --helper`,
one long-lived helper per hash seed and worker, JSON lines on stdin / a private fd), so that the ~15 s
import + JIT cost is paid once per helper and not once per spec.
"""

from __future__ import annotations

import json
import os
import queue
import shutil
import subprocess
import sys
import tempfile
import threading
import time

from hypothesis import strategies as st

from vf.core import HarnessError, Violation, close, drive, fp, hash32
from vf.gen import spec as G

PROPERTY = "C20"
LEVEL = "exploration"
TOLERANCE = "objective vectors rel 1e-6; mapping structures exact (canonical string)"
RULE = (
    "G-SPEC specs with 2-3 Einsums (chain2 / elementwise2 on 2-3 memory levels, chain3 / diamond on 2 levels; small "
    "bounds; finite throughputs so ENERGY|LATENCY fronts have several points; metrics ENERGY and ENERGY|LATENCY). "
    "Reference: set_n_parallel_jobs(1), no hook, no cache, PYTHONHASHSEED=0. Compared: ACCELFORGE_VERIF_SCHEDULE_SEED "
    "in 3 (quick) / 6 (thorough) drawn seeds with set_n_parallel_jobs(64 / 4 / 16 in turn) (in-process, permuted completion order; with more workers than pmapping groups the joiner splits groups); real "
    "set_n_parallel_jobs(4) with loky workers; PYTHONHASHSEED in {1, 4242, a per-shard drawn 32-bit seed} in helper "
    "processes; cache_dir cold then warm in a fresh directory that already holds the pmappings of the sibling spec "
    "differing only in spec.mapper.metrics, plus a warm read of the same directory from a helper process with another "
    "hash seed. Oracle: identical sorted list of (energy, latency within rel 1e-6, Canon(mapping)). Non-trivial: every "
    "Einsum has >= 2 pmapping jobs, some Einsum has >= 2 pmapping groups to join, and the hook logged >= 1 non-identity "
    "permutation. A second, light family (2-3 chained matmuls, two levels, ENERGY|LATENCY) is compared only between the "
    "reference and two hook schedules with 16 and 64 emulated workers. Distinct = distinct (spec, seeds)."
)
ASSUMPTIONS = [
    "the hook in accelforge/util/parallel.py delivers results in a completion order that real worker processes could also produce",
    "vf/gen/canon.py identifies a mapping structure (node kinds, components, sorted tensors, rank variables, tile shapes, branch structure; Reservation nodes and object ids ignored)",
    "a reference run that crashes or is infeasible is not a C20 matter unless another configuration disagrees about it",
    "the 'random' hash seed of the design is a drawn, recorded 32-bit seed so that replays are reproducible",
]

HOOK = "ACCELFORGE_VERIF_SCHEDULE_SEED"
SLOW_S = 25.0


# ---------------------------------------------------------------------------
# one mapper run under one configuration (used by the worker and by helpers)
# ---------------------------------------------------------------------------

def _cache_entries(path):
    n = 0
    for _, _, files in os.walk(path):
        n += sum(1 for f in files if f == "output.pkl")
    return n


def run_config(sp, cfg):
    """cfg: {"n_jobs": 1|4, "hook": seed|None, "cache": dir|None, "instrument": bool}
    -> {"status": "ok", "rows": [[canon, energy, latency], ...], ...} | {"status": "infeasible"} | {"status": "crash", ...}"""
    import accelforge  # noqa: F401
    import accelforge.mapper.FFM._make_pmappings.make_pmappings as pm
    from vf.gen import canon as CN

    P = sys.modules["accelforge.util.parallel"]
    out = {"status": "ok"}
    os.environ.pop(HOOK, None)
    if cfg.get("hook") is not None:
        os.environ[HOOK] = str(cfg["hook"])
        P._VERIF_SCHEDULE_CALLS = 0
        del P._VERIF_SCHEDULE_LOG[:]
    orig = pm.make_pmappings
    if cfg.get("instrument"):
        def wrapped(*a, **k):
            r = orig(*a, **k)
            out["groups"] = {str(e): len(v) for e, v in r[0].items()}
            out["jobs"] = {str(e): len(v) for e, v in r[2].items()}
            return r
        pm.make_pmappings = wrapped
    t0 = time.time()
    try:
        spec = G.build_spec(sp)
        kw = {"eval_in_detail": True, "n_jobs": cfg.get("n_jobs", 1)}
        if cfg.get("cache"):
            kw["cache_dir"] = cfg["cache"]
            out["cache_entries_before"] = _cache_entries(cfg["cache"])
        m = G.run_mapper(spec, **kw)
        tc = G.total_cols(m)
        rows = []
        for i in range(len(m.data)):
            rows.append([CN.canon(m.mapping(i)), tc["energy"][i], tc["latency"][i]])
        out["rows"] = sorted(rows)
    except G.Infeasible as e:
        out = {"status": "infeasible", "msg": str(e)[:200]}
    except Exception as e:  # noqa: BLE001
        import traceback
        out = {"status": "crash", "type": type(e).__name__, "msg": str(e)[:300], "tb": traceback.format_exc(limit=8)[-1500:]}
    finally:
        pm.make_pmappings = orig
        P.set_n_parallel_jobs(1)
        if cfg.get("hook") is not None:
            log = [list(p) for p in P._VERIF_SCHEDULE_LOG]
            out["calls"] = len(log)
            out["perm_fps"] = [fp(p) for p in log if len(p) >= 2 and p != sorted(p)]
        os.environ.pop(HOOK, None)
    if cfg.get("cache"):
        out["cache_entries_after"] = _cache_entries(cfg["cache"])
    out["t"] = round(time.time() - t0, 2)
    return out


# ---------------------------------------------------------------------------
# helper processes (other PYTHONHASHSEED values)
# ---------------------------------------------------------------------------

class Helper:
    def __init__(self, hashseed):
        self.hashseed = hashseed
        self.dir = os.path.abspath(f"c20_helper_{hashseed}")
        os.makedirs(self.dir, exist_ok=True)
        env = dict(os.environ)
        env["PYTHONHASHSEED"] = str(hashseed)
        env["TMPDIR"] = self.dir
        env.pop(HOOK, None)
        self.log = open(os.path.join(self.dir, "log.txt"), "w")
        self.p = subprocess.Popen([sys.executable, "-m", "vf.props.c20", "--helper"], cwd=self.dir, env=env,
                                  stdin=subprocess.PIPE, stdout=subprocess.PIPE, stderr=self.log, text=True)
        self.q: queue.Queue = queue.Queue()
        self.pending = 0
        self.dead = None
        threading.Thread(target=self._read, daemon=True).start()
        self.ready = None

    def _read(self):
        try:
            for line in self.p.stdout:
                line = line.strip()
                if line:
                    self.q.put(json.loads(line))
        except Exception as e:  # noqa: BLE001
            self.q.put({"_reader_error": repr(e)})
        self.q.put({"_eof": True})

    def _get(self, timeout):
        try:
            msg = self.q.get(timeout=timeout)
        except queue.Empty:
            self.dead = "timeout"
            self.kill()
            return None
        if "_eof" in msg or "_reader_error" in msg:
            self.dead = "exited: " + self.tail()
            return None
        return msg

    def tail(self):
        try:
            self.log.flush()
            return open(os.path.join(self.dir, "log.txt")).read()[-800:]
        except OSError:
            return ""

    def send(self, req):
        if self.dead:
            return
        try:
            self.p.stdin.write(json.dumps(req) + "\n")
            self.p.stdin.flush()
            self.pending += 1
        except (BrokenPipeError, OSError):
            self.dead = "broken pipe: " + self.tail()

    def recv(self, timeout=900.0):
        """-> list of results, or None when the helper is gone (reported as inconclusive, never as a violation)"""
        if self.dead:
            return None
        if self.ready is None:
            self.ready = self._get(300.0)
            if self.ready is None:
                return None
            if not self.ready.get("ready"):
                raise HarnessError(f"helper imported accelforge from {self.ready.get('file')}")
            if str(self.ready.get("hashseed")) != str(self.hashseed):
                raise HarnessError(f"helper runs with PYTHONHASHSEED={self.ready.get('hashseed')}, wanted {self.hashseed}")
        msg = self._get(timeout)
        if msg is None:
            return None
        self.pending -= 1
        return msg["results"]

    def kill(self):
        try:
            self.p.kill()
            self.p.wait(timeout=10)
        except Exception:  # noqa: BLE001
            pass

    def close(self):
        try:
            self.p.stdin.close()
        except Exception:  # noqa: BLE001
            pass
        try:
            self.p.wait(timeout=3 if self.pending == 0 else 0.1)
        except Exception:  # noqa: BLE001
            self.kill()
        try:
            self.log.close()
        except Exception:  # noqa: BLE001
            pass


_HELPERS: dict = {}


def _helper(hashseed):
    h = _HELPERS.get(hashseed)
    if h is None or h.dead:
        if h is not None:
            h.close()
        h = _HELPERS[hashseed] = Helper(hashseed)
    return h


def close_helpers():
    for h in list(_HELPERS.values()):
        h.close()
    _HELPERS.clear()


def _helper_main():
    out = os.fdopen(os.dup(1), "w")
    os.dup2(2, 1)                      # anything the mapper prints goes to the log, not to the protocol stream
    ppid = os.getppid()

    def watchdog():
        while True:
            time.sleep(2)
            if os.getppid() != ppid:
                os._exit(0)

    threading.Thread(target=watchdog, daemon=True).start()
    import accelforge

    want = os.path.abspath(os.environ.get("VF_REPO", "/repo"))
    ok = os.path.abspath(accelforge.__file__).startswith(want + os.sep)
    out.write(json.dumps({"ready": ok, "hashseed": os.environ.get("PYTHONHASHSEED"), "hash_a": hash("a"),
                          "file": accelforge.__file__}) + "\n")
    out.flush()
    for line in sys.stdin:
        line = line.strip()
        if not line:
            continue
        req = json.loads(line)
        res = [run_config(req["spec"], c) for c in req["configs"]]
        out.write(json.dumps({"results": res}) + "\n")
        out.flush()
    sys.stdout.flush()
    os._exit(0)


# ---------------------------------------------------------------------------
# oracle
# ---------------------------------------------------------------------------

def _vec_close(a, b):
    return len(a) == len(b) and all(close(x, y, rel=1e-6) for x, y in zip(a, b))


def compare(ref, res):
    """None if equal; else (kind, message). kind: status | tie-structure | objectives | front-size"""
    if res["status"] != ref["status"]:
        extra = f" ({res.get('type')}: {res.get('msg')})\n{res.get('tb', '')}" if res["status"] == "crash" else ""
        return "status", f"reference run is '{ref['status']}', this configuration is '{res['status']}'{extra}"
    if ref["status"] != "ok":
        return None
    A, B = ref["rows"], res["rows"]
    if len(A) == len(B) and all(a[0] == b[0] and _vec_close(a[1:], b[1:]) for a, b in zip(A, B)):
        return None
    va, vb = sorted(a[1:] for a in A), sorted(b[1:] for b in B)
    if len(va) != len(vb):
        return "front-size", f"reference returns {len(va)} mappings with (energy, latency) {va[:6]}, this configuration {len(vb)}: {vb[:6]}"
    if all(_vec_close(x, y) for x, y in zip(va, vb)):
        exact = va == vb
        ca, cb = {a[0] for a in A}, {b[0] for b in B}
        only_a, only_b = sorted(ca - cb), sorted(cb - ca)
        ex = ""
        if only_a and only_b:
            ra = [a for a in A if a[0] == only_a[0]][0]
            cand = [b for b in B if b[0] in only_b and _vec_close(b[1:], ra[1:])] or [b for b in B if b[0] in only_b]
            ex = (f"\n  reference only : (energy, latency)={ra[1:]} {ra[0][:700]}"
                  f"\n  this config only: (energy, latency)={cand[0][1:]} {cand[0][0][:700]}")
        return "tie-structure", (
            f"same {len(va)} objective vectors ({'exactly equal: a genuine tie' if exact else 'equal within rel 1e-6'}) "
            f"{va[:4]} but {len(only_b)} of the returned mapping structures differ (a tie is broken differently){ex}")
    return "objectives", f"objective vectors differ: reference {va[:6]}, this configuration {vb[:6]}"


FAMILY = {"hook": "completion-order", "real": "completion-order", "hash": "hashseed", "cache": "cache", "xcache": "cache"}
_PERMS: set = set()


def _bucket(n):
    return "1" if n <= 1 else "2-7" if n < 8 else "8-31" if n < 32 else "32+"


_WARM = []


def _warmup():
    """one tiny mapper run so that the numba JIT cost does not count as a slow reference run of the first spec"""
    if _WARM:
        return
    _WARM.append(1)
    es, rvs = G.chain(2)
    sp = {"shape": "chain2", "einsums": es, "bounds": {rv: 1 for rv in rvs}, "bits": {"All": 8}, "n_instances": 1,
          "nodes": [{"type": "Memory", "name": "Main", "size": "inf", "keep": "~Intermediates", "may_keep": "All", "read": [2, 1], "write": [2, 1], "leak": 0},
                    {"type": "Memory", "name": "GLB", "size": "inf", "keep": "~Main", "may_keep": "All", "read": [1, 1], "write": [1, 1], "leak": 0},
                    {"type": "Compute", "name": "MAC", "compute": [1, 1], "leak": 0}],
          "mapper": {"metrics": "ENERGY"}}
    run_config(sp, {"n_jobs": 1})


def check(desc, col):
    sp = desc["spec"]
    hash_seeds = list(desc.get("hash_seeds", []))
    helpers = [_helper(h) for h in hash_seeds]
    for h in helpers:
        h.send({"spec": sp, "configs": [{"n_jobs": 1}]})
    _warmup()
    ref = run_config(sp, {"n_jobs": 1, "instrument": True})
    slow = ref.get("t", 0) > SLOW_S or ref["status"] != "ok"
    results = []          # (config name, family tag, result)
    cache_dir = None
    other = "ENERGY|LATENCY" if sp["mapper"]["metrics"] == "ENERGY" else "ENERGY"
    cache_note = []
    try:
        if desc.get("cache") and not slow:
            cache_dir = tempfile.mkdtemp(prefix="c20_cache_", dir=os.getcwd())
            sib = dict(sp, mapper=dict(sp["mapper"], metrics=other))
            s = run_config(sib, {"n_jobs": 1, "cache": cache_dir})
            cold = run_config(sp, {"n_jobs": 1, "cache": cache_dir})
            results.append(("cache-cold(after sibling metrics=%s)" % other, "cache", cold))
            if cold["status"] == "ok" and s["status"] == "ok":
                cache_note.append("cold:" + ("miss" if cold["cache_entries_after"] > cold["cache_entries_before"] else "HIT-on-sibling"))
            if helpers:
                helpers[0].send({"spec": sp, "configs": [{"n_jobs": 1, "cache": cache_dir}]})
            warm = run_config(sp, {"n_jobs": 1, "cache": cache_dir})
            results.append(("cache-warm", "cache", warm))
        seeds = list(desc.get("hook_seeds", []))
        # worker counts 64 / 4 / 16: with more workers than pmapping groups the joiner splits groups to feed them all
        for i, hs in enumerate(seeds[:1] if slow else seeds):
            nj = (desc.get("hook_jobs") or (64, 4, 16))[i % len(desc.get("hook_jobs") or (64, 4, 16))]
            results.append((f"hook-seed-{hs}/n_jobs={nj}", "hook", run_config(sp, {"n_jobs": nj, "hook": hs})))
        if desc.get("real") and not slow:
            results.append(("real-loky/n_jobs=4", "real", run_config(sp, {"n_jobs": 4})))
        gone = []
        for k, h in enumerate(helpers):
            r = h.recv()
            if r is None:
                gone.append(f"{h.hashseed}:{(h.dead or '')[:300]}")
                continue
            results.append((f"PYTHONHASHSEED={h.hashseed}", "hash", r[0]))
            if k == 0 and cache_dir and h.pending:
                r2 = h.recv()
                if r2 is None:
                    gone.append(f"{h.hashseed}:{(h.dead or '')[:300]}")
                else:
                    results.append((f"cache-warm-from-process-with-PYTHONHASHSEED={h.hashseed}", "xcache", r2[0]))
                    if r2[0]["status"] == "ok":
                        cache_note.append("xproc:" + ("hit" if r2[0]["cache_entries_after"] == r2[0]["cache_entries_before"] else "miss"))
        if cache_dir:
            w = [r for n, _, r in results if n == "cache-warm"][0]
            if w["status"] == "ok":
                cache_note.append("warm:" + ("hit" if w["cache_entries_after"] == w["cache_entries_before"] else "miss"))
    finally:
        if cache_dir:
            shutil.rmtree(cache_dir, ignore_errors=True)
        for f in os.listdir("."):
            if f.endswith(".pkl"):
                try:
                    os.unlink(f)
                except OSError:
                    pass

    # ---- classification -----------------------------------------------------------------------
    perm_fps = [p for _, tag, r in results if tag == "hook" for p in r.get("perm_fps", [])]
    _PERMS.update(perm_fps)
    col.extra["distinct_nonidentity_permutations_summed_over_shards"] = len(_PERMS)
    col.extra["configurations_run"] = col.extra.get("configurations_run", 0) + len(results) + 1
    jobs, groups = ref.get("jobs", {}), ref.get("groups", {})
    nontrivial = bool(ref["status"] == "ok" and jobs and min(jobs.values()) >= 2 and max(groups.values()) >= 2 and perm_fps)
    mism = []
    labels = [f"shape:{sp['shape']}", f"metrics:{sp['mapper']['metrics']}", f"ref:{ref['status']}" + (":" + ref.get("type", "") if ref["status"] == "crash" else ""),
              f"configs:{len(results) + 1}", "family:light" if desc.get("light") else "family:full"] + [f"cache:{c}" for c in cache_note]
    if ref["status"] == "ok":
        labels += [f"front:{min(len(ref['rows']), 4)}", "min_jobs_per_einsum:" + _bucket(min(jobs.values())),
                   "max_groups_per_einsum:" + _bucket(max(groups.values())), "nonid_perms:" + _bucket(len(perm_fps))]
    if slow and ref["status"] == "ok":
        labels.append("slow-spec:reduced-configurations")
    for g in gone:
        labels.append("helper-gone:" + g.split(":")[0])
        col.extra.setdefault("helper_gone", []).append(g)
    for name, tag, r in results:
        c = compare(ref, r)
        labels.append(f"{tag}:{'same' if c is None else c[0]}")
        if c is not None:
            mism.append((f"{FAMILY[tag]}:{c[0]}", name, c[1]))
    col.case([sp, desc.get("hook_seeds"), hash_seeds], nontrivial, labels,
             sample={"shape": sp["shape"], "bounds": sp["bounds"], "metrics": sp["mapper"]["metrics"], "jobs": jobs, "groups": groups,
                     "front": [r[1:] for r in ref.get("rows", [])][:4], "configs": [n for n, _, _ in results],
                     "times": [ref.get("t")] + [r.get("t") for _, _, r in results]})
    if mism:
        new = [m for m in mism if m[0] not in col.known_keys] or mism
        key, name, msg = new[0]
        others = sorted({f"{n} [{k}]" for k, n, _ in mism if n != name})
        raise Violation(
            f"configuration {name} vs reference (1 worker, no hook, no cache, PYTHONHASHSEED=0): {msg}\n"
            f"spec: {sp['shape']} bounds={sp['bounds']} metrics={sp['mapper']['metrics']}; pmapping jobs per Einsum {jobs}, groups {groups}"
            + (f"\nalso differing: {others}" if others else ""), key=key)


# ---------------------------------------------------------------------------
# generation
# ---------------------------------------------------------------------------

@st.composite
def cases(draw, n_hook, hash_seeds):
    shape = draw(st.sampled_from(["chain2", "elementwise2", "chain3", "diamond", "chain2", "diamond"]))
    three = shape in ("chain3", "diamond")
    sp = draw(G.specs(shapes=(shape,), levels=(2,) if three else (2, 3), metrics=("ENERGY", "ENERGY|LATENCY", "ENERGY|LATENCY"),
                      bound_pool=[1, 2, 2, 3, 4] if three else [1, 2, 2, 3, 4, 4, 6], finite_tp=True,
                      max_ops=200 if three else 500))
    seeds = draw(st.lists(st.integers(0, 10**6), min_size=n_hook, max_size=n_hook, unique=True))
    return {"spec": sp, "hook_seeds": seeds, "hash_seeds": list(hash_seeds), "real": True, "cache": True}


@st.composite
def light_cases(draw):
    """cheap second family: 2-3 chained matmuls on two memory levels with ENERGY|LATENCY, compared only between the
    reference and two in-process schedules with 16 and 64 emulated workers (more workers than pmapping groups: the
    joiner splits groups to keep every worker busy)"""
    sp = draw(G.specs(shapes=("chain2", "chain2", "chain3"), levels=(2,), metrics=("ENERGY|LATENCY",),
                      bound_pool=[2, 3, 4, 4, 4, 6], finite_tp=True, max_ops=400))
    seeds = draw(st.lists(st.integers(0, 10**6), min_size=2, max_size=2, unique=True))
    return {"spec": sp, "hook_seeds": seeds, "hash_seeds": [], "real": False, "cache": False, "hook_jobs": [16, 64], "light": True}


N = {"quick": (5, 2, 3), "thorough": (10, 6, 6)}     # shards, specs per shard, hook seeds
N_LIGHT = {"quick": 4, "thorough": 16}               # light specs per shard


def shards(tier, seed):
    ns, n, nh = N[tier]
    return [{"k": k, "n": n, "n_hook": nh, "n_light": N_LIGHT[tier], "seed": seed, "hash_seeds": [1, 4242, hash32(seed, "C20-hashseed", k)]}
            for k in range(ns)]


def run_shard(shard, col):
    try:
        drive(cases(shard["n_hook"], shard["hash_seeds"]), check, n=shard["n"], seed=hash32(shard["seed"], "C20", shard["k"]),
              col=col, shrink=False)
        drive(light_cases(), check, n=shard.get("n_light", 0), seed=hash32(shard["seed"], "C20light", shard["k"]),
              col=col, shrink=False)
    finally:
        close_helpers()


def replay(desc, col):
    try:
        check(desc, col)
    finally:
        close_helpers()


REGISTER = True
QUICK_BUDGET_S = 600
THOROUGH_BUDGET_S = 3000
MUTANTS = [
    {"what": "unchanged tree = 'result list filled in arrival order': make_pmappings extends pmapping_groups in generator_unordered arrival order", "caught": True,
     "how": "completion-order:tie-structure (genuine defect, regress/C20/completion_order_tie_chain2.json; passes with regress/C20/suggested_fix.diff)"},
    {"what": "(on top of the suggested fix) main.py: cache key omits spec.mapper (key = (arch, workload, einsum_names, flag), kwargs ignored)", "caught": True,
     "how": "cache:front-size: cold read after the sibling spec (other metrics) returns the sibling's pmappings"},
    {"what": "(on top of the fix) make_pmappings: calls ordered by hash(str(compatibility)) instead of mapping length", "caught": True,
     "how": "hashseed:tie-structure under the per-shard drawn PYTHONHASHSEED"},
    {"what": "(on top of the fix) util/parallel.py: results[i] = result -> results.append(result)", "caught": True,
     "how": "completion-order:status (4-worker configurations crash, reference is ok)"},
    {"what": "(on top of the fix) util/_frozenset.py: oset.__iter__ unsorted; and oset.__iter__ + fzs.__iter__ both unsorted", "caught": False,
     "how": "survived; a separate probe (6 specs incl. the tie spec, PYTHONHASHSEED 0/1/4242, un-canonicalised trees) shows bit-identical output: behaviourally equivalent on this domain, downstream code re-sorts"},
]
MANIFEST = {
    "level_text": "Differential testing of map_workload_to_arch against itself across configurations on generated 2-3 Einsum specs (hook schedules with 64, 4 and 16 emulated workers; a light chained-matmul family compares only 1 vs 16 vs 64 workers): 1 worker vs seeded permuted completion orders (schedule hook) vs real loky workers vs other PYTHONHASHSEED values (helper processes) vs cold/warm/cross-process cache_dir reads (with a sibling spec differing only in spec.mapper already cached): sorted (objective vector, canonical mapping structure) lists must be identical. No counterexample in N specs x ~10 configurations beyond the listed known findings; not a proof.",
    "level_note": "Trusted: vf/gen/canon.py as the identity of a mapping structure; the hook's permutations are schedules real workers could produce. Small specs only (2-3 Einsums, bounds <= 6).",
    "technique": "differential testing across scheduling / hashing / caching configurations with a controlled-schedule hook (Hypothesis-generated specs)",
}

if __name__ == "__main__":
    if "--helper" in sys.argv:
        _helper_main()
