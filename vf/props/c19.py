"""C19 — optimal costs scale with the architecture's cost parameters and with n_instances."""

import math

from hypothesis import strategies as st

from vf.core import Violation, hash32
from vf.gen import metamorph as MM

PROPERTY = "C19"
LEVEL = "exploration"
TOLERANCE = "rel 1e-5; rel 1e-4 when |log10 k| >= 6 (float32 mapper)"
RULE = (
    "Hypothesis-generated (small spec, transformation) pairs, the three transformation kinds and the eight k values dealt evenly over the cases; specs as in C17 (1-2 Einsums, 2-3 memory levels, finite "
    "throughputs, leak, GLB sized around the tensors), zero tolerances. Transformations: (energy) every per-action energy "
    "and leak power x k, k in {2, 0.5, 8, 1024, 3, 0.1, 1e6, 1e-6}, metrics ENERGY / ENERGY|LATENCY / EDP: optimal energy "
    "(front minimum, EDP optimum) x k, front-minimum latency unchanged; (throughput) every finite throughput x k, metrics "
    "LATENCY / ENERGY|LATENCY: optimal latency / k; (instances) workload n_instances x j, every Einsum's n_instances x j "
    "(both: energy and latency optimum x j, EDP x j^2, and if the same mapping is returned its resource usage is "
    "unchanged) or one Einsum's n_instances x j in a 2-Einsum workload (optimality sandwich from the reported per-Einsum "
    "breakdowns: the base optimum re-weighted bounds the scaled optimum from above and vice versa), j in {2,3,4}. "
    "Feasibility must be the same on both sides. Non-trivial: both sides feasible and the mapper reports > 1 valid "
    "mapping for the base spec (there was a choice to make). Distinct = distinct (spec, transformation)."
)
ASSUMPTIONS = [
    "one-Einsum n_instances scaling has no closed-form optimum; the oracle is the two-sided optimality bound computed from the per-Einsum energy()/latency() breakdown of the two returned optima (trusted only when it sums to the reported total)",
    "throughput 'inf' is left unchanged by throughput scaling",
    "no persistent tensors (so no reservation scales with n_instances)",
]

KS = [2, 0.5, 8, 1024, 3, 0.1, 1e6, 1e-6]


@st.composite
def cases(draw, slot):
    kind = slot["kind"]
    if kind == "instances":
        spec = draw(MM.small_specs(shapes=("matmul", "chain2", "chain2", "elementwise2", "matvec")))
        j = draw(st.sampled_from([2, 3, 4]))
        opts = ["workload", "all_einsums"]
        if len(spec["einsums"]) == 2:
            opts += ["0", "1", "0", "1"]
        which = draw(st.sampled_from(opts))
        if draw(st.integers(0, 2)) == 0:
            # a base that already carries instance counts
            spec = MM.scale_instances(spec, draw(st.sampled_from([2, 3])), draw(st.sampled_from(opts)))
        metrics = draw(st.sampled_from(["ENERGY", "LATENCY", "ENERGY_DELAY_PRODUCT"]))
        return {"spec": spec, "kind": kind, "k": j, "which": which, "metrics": metrics}
    spec = draw(MM.small_specs())
    k = slot["k"]
    if kind == "energy":
        metrics = draw(st.sampled_from(["ENERGY", "ENERGY", "ENERGY|LATENCY", "ENERGY_DELAY_PRODUCT"]))
    else:
        metrics = draw(st.sampled_from(["LATENCY", "LATENCY", "ENERGY|LATENCY"]))
    return {"spec": spec, "kind": kind, "k": k, "metrics": metrics}


def _per_einsum(run, i):
    """({einsum: energy}, {einsum: latency}) of returned row i, or None if the breakdown does not sum to the totals"""
    m = run.mappings
    e = m.energy(per_einsum=True, list_if_one_mapping=True)
    l = m.latency(per_einsum=True, list_if_one_mapping=True)
    pe = {str(k): float(v[i]) for k, v in e.items()}
    pl = {str(k): float(v[i]) for k, v in l.items()}
    r = run.rows[i]
    if not MM.same(sum(pe.values()), r["energy"], 1e-4) or not MM.same(sum(pl.values()), r["latency"], 1e-4):
        return None
    return pe, pl


def _cost(pe, pl, w, metrics):
    e = sum(pe[n] * w.get(n, 1) for n in pe)
    l = sum(pl[n] * w.get(n, 1) for n in pl)
    return {"ENERGY": e, "LATENCY": l, "ENERGY_DELAY_PRODUCT": e * l}[metrics]


OBJ = {"ENERGY": "energy", "LATENCY": "latency", "ENERGY_DELAY_PRODUCT": "edp"}


def check(desc, col):
    spec, kind, k, metrics = desc["spec"], desc["kind"], desc["k"], desc["metrics"]
    if kind == "energy":
        spec2 = MM.scale_energy(spec, k)
    elif kind == "throughput":
        spec2 = MM.scale_throughput(spec, k)
    else:
        spec2 = MM.scale_instances(spec, k, desc["which"])
    a = MM.run(spec, metrics=metrics, what="base run")
    b = MM.run(spec2, metrics=metrics, what=f"{kind}-scaled run")
    rel = 1e-4 if (kind != "instances" and abs(math.log10(k)) >= 6) else 1e-5
    labels = MM.shape_labels(spec) + [f"kind:{kind}", f"metrics:{metrics}"]
    labels.append(f"k:{k}" if kind != "instances" else f"j:{k}:{'one_einsum' if desc['which'] in ('0', '1') else desc['which']}")
    choice = a.feasible and (a.mappings.valid_mappings or 0) > 1
    nontrivial = a.feasible and b.feasible and choice
    labels.append("infeasible" if not a.feasible else ("choice" if choice else "single-valid-mapping"))
    samp = {"shape": spec["shape"], "bounds": spec["bounds"], "kind": kind, "k": k, "metrics": metrics,
            "which": desc.get("which")}
    if a.feasible and b.feasible:
        samp["base"] = {n: a.best(n) for n in ("energy", "latency", "edp")}
        samp["scaled"] = {n: b.best(n) for n in ("energy", "latency", "edp")}
        ia, ib = a.argbest(OBJ.get(metrics, "energy")), b.argbest(OBJ.get(metrics, "energy"))
        same_map = a.canon(ia) == b.canon(ib)
        labels.append("same-mapping" if same_map else "different-mapping")
    col.case([spec, kind, k, desc.get("which"), metrics], nontrivial, labels, sample=samp)

    if a.feasible != b.feasible:
        raise Violation(f"{kind} x{k}: base feasible={a.feasible} ({a.why}) but scaled feasible={b.feasible} ({b.why})",
                        key=f"{kind}:feasibility-changed")
    if not a.feasible:
        return

    def expect(name, factor, how):
        x, y = a.best(name), b.best(name)
        if not MM.same(y, x * factor, rel):
            raise Violation(
                f"{kind} x{k} metrics={metrics}: {how}: base {name}={x!r}, expected scaled {x * factor!r}, got {y!r} "
                f"(rel err {MM.rel_err(y, x * factor):.3g})", key=f"{kind}:{metrics}:{name}")

    if kind == "energy":
        if metrics == "ENERGY":
            expect("energy", k, "optimal energy must scale by k")
        elif metrics == "ENERGY|LATENCY":
            expect("energy", k, "front-minimum energy must scale by k")
            expect("latency", 1, "front-minimum latency must not change")
        else:
            expect("edp", k, "optimal EDP must scale by k")
    elif kind == "throughput":
        expect("latency", 1 / k, "optimal latency must scale by 1/k")
    elif desc["which"] in ("workload", "all_einsums"):
        if metrics == "ENERGY_DELAY_PRODUCT":
            expect("edp", k * k, "optimal EDP must scale by j^2")
        else:
            expect(OBJ[metrics], k, "optimal total must scale by j")
        if same_map:
            ua, ub = a.usage[ia], b.usage[ib]
            for res in sorted(set(ua) | set(ub)):
                if not MM.same(ua.get(res, 0.0), ub.get(res, 0.0), 1e-6):
                    raise Violation(f"instances x{k} ({desc['which']}): same mapping but usage of {res} changed "
                                    f"{ua.get(res)} -> {ub.get(res)}", key="instances:usage-changed")
    else:
        name = spec["einsums"][int(desc["which"])]["name"]
        obj = OBJ[metrics]
        x, y = a.best(obj), b.best(obj)
        # every mapping's cost lies between its base cost and j times it
        lo, hi = x * (1 - rel), x * (k * k if metrics == "ENERGY_DELAY_PRODUCT" else k) * (1 + rel)
        if not (lo <= y <= hi):
            raise Violation(f"instances x{k} on {name} metrics={metrics}: scaled optimum {y!r} outside [{x!r}, j*base]",
                            key=f"instances:one-einsum:{metrics}:range")
        pa, pb = _per_einsum(a, ia), _per_einsum(b, ib)
        if pa is None or pb is None:
            col.label("breakdown-unusable")
            return
        up = _cost(pa[0], pa[1], {name: k}, metrics)            # base optimum under the scaled weights
        if y > up * (1 + rel):
            raise Violation(
                f"instances x{k} on {name} metrics={metrics}: scaled optimum {y!r} is worse than the base optimum "
                f"re-weighted ({up!r}); per-Einsum base breakdown {pa}", key=f"instances:one-einsum:{metrics}:not-optimal")
        down = _cost(pb[0], pb[1], {name: 1.0 / k}, metrics)    # scaled optimum under the base weights
        if x > down * (1 + rel):
            raise Violation(
                f"instances x{k} on {name} metrics={metrics}: base optimum {x!r} is worse than the scaled optimum "
                f"re-weighted to the base ({down!r}); per-Einsum scaled breakdown {pb}",
                key=f"instances:one-einsum:{metrics}:base-not-optimal")
        col.label("one-einsum:tight" if MM.same(y, up, rel) else "one-einsum:moved")


N = {"quick": 36, "thorough": 480}
KINDS = ["energy", "throughput", "instances"]


def shards(tier, seed):
    # kinds in turn; every k of KS equally often for each of the two cost scalings
    slots = [{"kind": KINDS[i % 3], "k": KS[(i // 3 + (3 if i % 3 == 1 else 0) + seed) % len(KS)]} for i in range(N[tier])]
    return MM.deal(slots, tier, seed)


def run_shard(shard, col):
    MM.run_slots(shard, col, "C19", cases, check)


def replay(desc, col):
    check(desc, col)


REGISTER = True
QUICK_BUDGET_S = 600
THOROUGH_BUDGET_S = 3000
MUTANTS = [
    {"what": "run_model: Total latency not multiplied by n_instances", "caught": True, "how": "instances:LATENCY:latency"},
    {"what": "run_model: Total leak_energy not multiplied by n_instances", "caught": True, "how": "instances:ENERGY:energy"},
    {"what": "pareto.makepareto: a float column varying by < 1e-3 (absolute) is treated as constant", "caught": True,
     "how": "energy:ENERGY:energy (k=1e-6) and throughput:LATENCY:latency (k=1e6)"},
    {"what": "run_model: overall latency floored at one cycle, max_nonzero(1, ...)", "caught": True, "how": "throughput:LATENCY:latency, throughput:ENERGY|LATENCY:latency"},
    {"what": "fast_pareto: block_mins sentinel 1e30 -> 1e3 (planned in DESIGN)", "caught": False,
     "note": "equivalent mutant: a too-small block minimum only disables the block-skip shortcut, results are unchanged"},
]
MANIFEST = {
    "level_text": "Metamorphic testing of map_workload_to_arch: a generated small spec and its transform (all energies and leak x k; all throughputs x k; workload / every Einsum / one Einsum n_instances x j) are both mapped and the optima must obey the scaling law (x k, / k, x j, x j^2 for EDP; two-sided optimality bound for one-Einsum scaling), with identical feasibility and unchanged usage of an unchanged mapping. No counterexample in N pairs; not a proof.",
    "level_note": "k in {2,0.5,8,1024,3,0.1,1e6,1e-6}, j in {2,3,4}; 1-2 Einsums, 2-3 memory levels, rank bounds <= 6; zero tolerances; rel 1e-5 (1e-4 for |log10 k| >= 6).",
    "technique": "property-based metamorphic testing of the mapper (Hypothesis)",
}
