"""C09 — symbolic sign and monotonicity verdicts hold at every point of the box.

Two input sources, one oracle:

* HARVESTED: every (formula, [symbol,] bounds, flags, verdict) that geq_leq_zero /
  diff_geq_leq_zero issue while the real mapper explores tile shapes of generated small
  specs (vf/instrument.py: harvest_verdicts + prune_threshold).  Each record is
  serialised into a plain-JSON descriptor (formula tree, no mapper needed for a replay).
* GRAMMAR: model-shaped formula trees drawn by Hypothesis (posynomials, halo factors,
  ceilings of ratios, Max/Min of sums, Heaviside factors).

The oracle (vf/ref/boxeval.py, stdlib only) evaluates the tree on every integer point of
the box (or corners + 20 000 deterministic samples above 50 000 points).
"""

from __future__ import annotations

import copy
import json
import signal

from hypothesis import strategies as st

from vf.core import Violation, drive, fp, hash32
from vf.gen import spec as G
from vf.ref import boxeval as BX

PROPERTY = "C09"
LEVEL = "exploration"
TOLERANCE = "exact (Fraction) for rational formulas; float64 with eps = 1e-9 * magnitude(point) when the formula holds float literals"
RULE = (
    "Two sources. HARVESTED: Hypothesis-generated small specs (C08 family: matmul/matvec/elementwise/chain2, bounds<=12, 2-3 "
    "memory levels with finite throughputs, metrics ENERGY/LATENCY/EDP/ENERGY|LATENCY, prune threshold drawn from {1,8,64,1000}) "
    "in five variants (as is; explore_imperfect_temporal_loops; a spatial PE container of fanout 2/4, optionally with "
    "explore_imperfect_spatial_loops; a 1-D convolution workload O[p,m]=I[p+r,c]*W[r,c,m]); up to 5 loop-rich pmapping templates "
    "per spec are run through make_pmappings_from_templates while geq_leq_zero/diff_geq_leq_zero are wrapped at module level; "
    "every recorded call (de-duplicated on function, formula, symbol, bounds of the formula's symbols, flags) becomes a "
    "descriptor {fn, formula tree, symbol, bounds, flags, harvested verdict}; the check validates the harvested verdict and the "
    "verdict of a fresh call on the rebuilt formula. GRAMMAR: 1-4 positive integer symbols with boxes [lo,hi] within [1,12]; "
    "sums of monomials c*prod(s^+-1/+-2)[*ceiling(N/s | N/(s*t) | (N-s)/t)], halo factors (s+h), (s+t-1), Max/Min of 2-3 sums, "
    "sum*Max products, Heaviside(affine | difference of sums) factors alone or in complementary pairs; integer, rational or float "
    "coefficients; sign profiles all-positive/all-negative/mixed (formulas holding a ceiling keep one sign for every coefficient, "
    "see ASSUMPTIONS); both functions; terms_do_not_cross_zero=True only when the precondition holds on the box. Oracle: brute "
    "force on all integer points. Non-trivial: verdict != UNKNOWN and (>=2 symbols or a ceiling/Min/Max/Heaviside). "
    "Distinct = distinct (function, formula tree, symbol, bounds of the formula's symbols, flags)."
)
ASSUMPTIONS = [
    "formula semantics are those of vf/ref/boxeval.py: Heaviside(0)=1/2 (sympy default), ceiling/floor exact, Max/Min pointwise",
    "geq_leq_zero(f,...) GEQ/LEQ/EQUAL is a claim about f at every integer point of the box; diff_geq_leq_zero(f,s,...) is a claim "
    "about f along the integer lattice in s (non-decreasing / non-increasing / constant), the reading every caller relies on",
    "terms_do_not_cross_zero=True is passed by the grammar source only if f itself and every top-level additive term of f keep one "
    "sign on the box (callers pass it for factors of objectives whose terms do not cross zero)",
    "grammar formulas that hold a ceiling have coefficients of one sign only: _compare_to_zero replaces ceiling(g) by g, which is "
    "only claimed sound for the monomial use the model makes of ceilings (DESIGN.md C09 caveat); harvested formulas are checked "
    "whatever their shape",
    "harvested geq_leq_zero records whose formula holds Derivative/Subs (derivative of a ceiling) have no pointwise value and are "
    "counted but not judged; the enclosing diff_geq_leq_zero record is judged on the undifferentiated formula",
    "a crash or a >40 s hang of the comparator on a grammar formula is counted, not reported (C09 is about verdicts)",
]

VERDICTS = {"ALWAYS_GEQ_THAN_ZERO": "GEQ", "ALWAYS_LEQ_THAN_ZERO": "LEQ", "ALWAYS_EQUAL_TO_ZERO": "EQUAL", "UNKNOWN": "UNKNOWN"}
CALL_TIMEOUT_S = 40


# ---------------------------------------------------------------------------
# formula tree <-> sympy
# ---------------------------------------------------------------------------

def canon(t):
    """Canonical form of a tree (commutative children sorted) for fingerprints."""
    if not isinstance(t, list):
        return t
    k = t[0]
    if k in ("add", "mul", "max", "min"):
        return [k] + sorted((canon(c) for c in t[1:]), key=lambda c: json.dumps(c, sort_keys=True))
    if k in ("pow", "ceil", "floor", "heav"):
        return [k] + [canon(c) for c in t[1:]]
    return list(t)


def to_tree(e):
    import sympy

    e = sympy.sympify(e)
    if e.is_Symbol:
        return ["sym", e.name]
    if e.is_Integer:
        return ["int", int(e)]
    if e.is_Rational:
        return ["rat", int(e.p), int(e.q)]
    if e.is_Float:
        return ["flt", float(e)]
    if e.is_Add:
        return ["add"] + [to_tree(a) for a in e.args]
    if e.is_Mul:
        return ["mul"] + [to_tree(a) for a in e.args]
    if e.is_Pow:
        return ["pow", to_tree(e.base), to_tree(e.exp)]
    if isinstance(e, sympy.Max):
        return ["max"] + [to_tree(a) for a in e.args]
    if isinstance(e, sympy.Min):
        return ["min"] + [to_tree(a) for a in e.args]
    if isinstance(e, sympy.ceiling):
        return ["ceil", to_tree(e.args[0])]
    if isinstance(e, sympy.floor):
        return ["floor", to_tree(e.args[0])]
    if isinstance(e, sympy.Heaviside):
        if len(e.args) > 1 and e.args[1] != sympy.S.Half:
            return ["heav", to_tree(e.args[0]), to_tree(e.args[1])]
        return ["heav", to_tree(e.args[0])]
    return ["opaque", type(e).__name__ + ":" + str(e)[:120]]


def to_sympy(t, syms):
    import sympy

    k = t[0]
    if k == "sym":
        return syms[t[1]]
    if k == "int":
        return sympy.Integer(int(t[1]))
    if k == "rat":
        return sympy.Rational(int(t[1]), int(t[2]))
    if k == "flt":
        return sympy.Float(float(t[1]))
    a = [to_sympy(c, syms) for c in t[1:]]
    if k == "add":
        return sympy.Add(*a)
    if k == "mul":
        return sympy.Mul(*a)
    if k == "pow":
        return sympy.Pow(a[0], a[1])
    if k == "max":
        return sympy.Max(*a)
    if k == "min":
        return sympy.Min(*a)
    if k == "ceil":
        return sympy.ceiling(a[0])
    if k == "floor":
        return sympy.floor(a[0])
    if k == "heav":
        return sympy.Heaviside(*a)
    raise ValueError(f"cannot rebuild node {k}")


# ---------------------------------------------------------------------------
# calling the code under test
# ---------------------------------------------------------------------------

class _Timeout(BaseException):
    pass


def _alarm(signum, frame):
    raise _Timeout()


def call_comparator(desc, tdncz):
    """-> ("ok", verdict) | ("crash", text) | ("timeout", None)"""
    from accelforge.mapper.FFM._make_pmappings.make_pmappings_from_templates import make_tile_shapes as MTS
    import sympy

    names = sorted({b[0] for b in desc["bounds"]} | set(BX.symbols_of(desc["expr"])) | ({desc["symbol"]} if desc.get("symbol") else set()))
    syms = {n: MTS.makesymbol(n) for n in names}
    f = to_sympy(desc["expr"], syms)
    if desc.get("expand"):
        f = sympy.expand(f)
    bounds = tuple((syms[n], int(lo), int(hi)) for n, lo, hi in desc["bounds"])
    old = signal.signal(signal.SIGALRM, _alarm)
    signal.setitimer(signal.ITIMER_REAL, CALL_TIMEOUT_S)
    try:
        if desc["fn"] == "geq_leq_zero":
            kw = {} if tdncz is None else {"terms_do_not_cross_zero": bool(tdncz)}
            r = MTS.geq_leq_zero(f, bounds, **kw)
        else:
            r = MTS.diff_geq_leq_zero(f, syms[desc["symbol"]], bounds)
        return "ok", VERDICTS[r.name]
    except _Timeout:
        return "timeout", None
    except Exception as e:  # noqa: BLE001 - counted, see ASSUMPTIONS
        return "crash", f"{type(e).__name__}: {str(e)[:200]}"
    finally:
        signal.setitimer(signal.ITIMER_REAL, 0)
        signal.signal(signal.SIGALRM, old)


# ---------------------------------------------------------------------------
# the oracle on one descriptor
# ---------------------------------------------------------------------------

def _precondition(tree, rb, seed):
    """terms_do_not_cross_zero precondition on the box: f keeps one sign, and so does every top-level additive term."""
    parts = [tree] + (list(tree[1:]) if tree[0] == "add" else [])
    for p in parts:
        sub = [b for b in rb if b[0] in set(BX.symbols_of(p))]
        sc = BX.sign_scan(p, sub, seed)
        if sc["neg"] is not None and sc["pos"] is not None:
            return False
    return True


def _ceil_holds(tree, sym):
    return any(n[0] in ("ceil", "floor") and sym in BX.symbols_of(n) for n in BX.walk(tree))


def root_cause_key(fn, tree, sym, feats, tdncz, pre_ok):
    """Group wrong verdicts by the mechanism that produces them."""
    shape = "+".join(k for k in ("max", "min", "ceil", "heav") if feats[k]) or ("mixed-sign-sum" if feats["neg"] else "posynomial")
    if fn == "diff_geq_leq_zero":
        if _ceil_holds(tree, sym):
            key = "diff:ceiling-of-the-symbol-differentiated-as-identity"
        elif feats["max"] or feats["min"]:
            key = "diff:minmax-derivative-heaviside-branches-replaced-jointly"
        else:
            key = "diff:" + shape
    else:
        if feats["heav"]:
            key = "sign:heaviside-branches-replaced-jointly"
        elif feats["ceil"]:
            key = "sign:ceiling-replaced-by-argument"
        else:
            key = "sign:" + shape
        if tdncz:
            key += ":tdncz" + ("" if pre_ok else "-precondition-violated-by-caller")
    return key


def sympy_assumption_bug(desc, seed):
    """Diagnosis of a wrong verdict: does sympy's own assumption system (which _compare_to_zero trusts through
    ``f >= 0`` / ``f <= 0``) claim a sign for the judged expression that brute force refutes?  -> name or None"""
    from accelforge.mapper.FFM._make_pmappings.make_pmappings_from_templates import make_tile_shapes as MTS
    import sympy

    names = sorted({b[0] for b in desc["bounds"]} | set(BX.symbols_of(desc["expr"])))
    syms = {n: MTS.makesymbol(n) for n in names}
    try:
        g = to_sympy(desc["expr"], syms)
        if desc["fn"] == "diff_geq_leq_zero":
            g = sympy.diff(sympy.expand(g), syms[desc["symbol"]])
        # the comparator judges the expression with every ceiling replaced by its argument
        g = g.doit().replace(lambda e: e.is_Function and e.func == sympy.ceiling, lambda e: e.args[0])
        t = to_tree(g)
        if BX.features(t)["opaque"] or BX.features(t)["heav"]:
            return None
        free = set(BX.symbols_of(t))
        sc = BX.sign_scan(t, [[n, lo, hi] for n, lo, hi in desc["bounds"] if n in free], seed)
        if g.is_nonnegative is True and sc["neg"]:
            return "is_nonnegative"
        if g.is_nonpositive is True and sc["pos"]:
            return "is_nonpositive"
    except Exception:  # noqa: BLE001 - diagnosis only, never changes pass/fail
        return None
    return None


def _trend_labels(tree, rb, sym, seed):
    """For diff on a formula holding Max/Min: do the arguments of the first Max/Min move in opposite directions along sym?"""
    node = next((n for n in BX.walk(tree) if n[0] in ("max", "min")), None)
    if node is None:
        return []
    ups = downs = 0
    for arg in node[1:]:
        free = set(BX.symbols_of(arg))
        try:
            sc = BX.monotone_scan(arg, [b for b in rb if b[0] in free], sym, seed)
        except BX.Unevaluable:
            return []
        ups += sc["up"] is not None
        downs += sc["down"] is not None
    return ["minmax-args:opposite-trends" if ups and downs else "minmax-args:same-trend"]


def check(desc, col):
    tree = desc["expr"]
    fn = desc["fn"]
    sym = desc.get("symbol")
    src = desc.get("src", "grammar")
    feats = BX.features(tree)
    free = set(BX.symbols_of(tree))
    rb = [[n, int(lo), int(hi)] for n, lo, hi in desc["bounds"] if n in free]
    flags = dict(desc.get("flags") or {})
    ident = [fn, canon(tree), sym if fn == "diff_geq_leq_zero" else None, sorted(rb), flags, bool(desc.get("expand"))]
    seed = hash32(fp(ident))
    main = "+".join(k for k in ("max", "min", "ceil", "heav") if feats[k]) or ("plain-mixed-sign" if feats["neg"] else "plain-positive")
    labels = [f"{src}:fn:{fn}", f"{src}:shape:{main}", f"{src}:nsym:{min(feats['nsym'], 4)}{'+' if feats['nsym'] > 4 else ''}"]
    if desc.get("variant"):
        labels.append(f"harvest-variant:{desc['variant']}")

    if feats["opaque"]:
        col.case(ident, False, labels + [f"{src}:unevaluable(Derivative/Subs)"])
        return
    missing = [n for n in free if n not in {b[0] for b in desc["bounds"]}]
    if missing:
        col.case(ident, False, labels + [f"{src}:symbol-without-bounds"])
        col.reject("symbol-without-bounds")
        return

    # --- reference scan (once per descriptor) ---
    try:
        if fn == "geq_leq_zero":
            scan = BX.sign_scan(tree, rb, seed)
            lo_bad, hi_bad = scan["neg"], scan["pos"]
            truth = ("EQUAL" if not lo_bad and not hi_bad else "GEQ" if not lo_bad else "LEQ" if not hi_bad else "MIXED")
        else:
            scan = BX.monotone_scan(tree, rb, sym, seed)
            lo_bad, hi_bad = scan["down"], scan["up"]
            labels += [f"{src}:{x}" for x in _trend_labels(tree, rb, sym, seed)]
            if _ceil_holds(tree, sym):
                labels.append(f"{src}:diff-symbol-inside-a-ceiling")
            truth = ("EQUAL" if not lo_bad and not hi_bad else "GEQ" if not lo_bad else "LEQ" if not hi_bad else "MIXED")
    except BX.Unevaluable as e:
        col.case(ident, False, labels + [f"{src}:unevaluable({e})"])
        col.reject("unevaluable")
        return
    labels += [f"{src}:box:{'sampled' if scan['sampled'] else 'exhaustive'}", f"{src}:arith:{'exact' if scan['exact'] else 'float64'}",
               f"{src}:truth:{truth}"]

    # --- flags ---
    tdncz = None
    pre_ok = None
    if fn == "geq_leq_zero" and "terms_do_not_cross_zero" in flags:
        want = flags["terms_do_not_cross_zero"]
        if want == "if-precondition-holds":
            pre_ok = _precondition(tree, rb, seed)
            tdncz = True if pre_ok else None
            labels.append(f"grammar:tdncz:{'passed-True' if pre_ok else 'precondition-fails->not-passed'}")
        else:
            tdncz = bool(want)
            if tdncz:
                pre_ok = _precondition(tree, rb, seed)
                labels.append(f"{src}:tdncz:True:{'precondition-holds' if pre_ok else 'PRECONDITION-VIOLATED-BY-CALLER'}")
            else:
                labels.append(f"{src}:tdncz:False-explicit")

    # --- verdicts to judge ---
    verdicts = []
    if desc.get("verdict"):
        verdicts.append(("harvested", desc["verdict"]))
    status, got = call_comparator(desc, tdncz)
    if status == "ok":
        if verdicts and verdicts[0][1] != got:
            labels.append(f"{src}:replayed-verdict-differs-from-harvested")
        verdicts.append(("fresh-call", got))
    elif status == "timeout":
        labels.append(f"{src}:comparator-timeout")
        col.extra.setdefault("comparator_timeouts", []).append(f"{fn}({_pretty(desc)}, {sym}, {rb})"[:400])
    else:
        labels.append(f"{src}:comparator-crash:{got.split(':')[0]}")
        col.extra.setdefault("comparator_crashes", []).append(f"{fn}({_pretty(desc)}, {sym}, {rb}) -> {got}"[:500])
    if not verdicts:
        col.case(ident, False, labels)
        col.reject("comparator-" + status)
        return
    main_v = verdicts[0][1]
    structured = feats["nsym"] >= 2 or feats["ceil"] or feats["max"] or feats["min"] or feats["heav"] or feats["floor"]
    labels.append(f"{src}:{fn}:verdict:{main_v}")
    if main_v == "UNKNOWN" and truth != "MIXED":
        labels.append(f"{src}:UNKNOWN-although-truth-is-definite")
    col.case(ident, main_v != "UNKNOWN" and bool(structured), labels,
             sample={"src": src, "fn": fn, "formula": _pretty(desc), "symbol": sym, "bounds": rb, "flags": flags,
                     "verdict": main_v, "truth_on_box": truth, "points": scan["n"]})

    for who, v in verdicts:
        bad = None
        if v == "GEQ" and lo_bad:
            bad = lo_bad
        elif v == "LEQ" and hi_bad:
            bad = hi_bad
        elif v == "EQUAL" and (lo_bad or hi_bad):
            bad = lo_bad or hi_bad
        if bad is None:
            continue
        key = root_cause_key(fn, tree, sym, feats, tdncz, pre_ok)
        third = sympy_assumption_bug(desc, seed)
        if third:
            key = "third-party:sympy-assumption-wrong"
        if fn == "geq_leq_zero":
            what = f"f({dict(zip([b[0] for b in rb], bad[0]))}) = {bad[1]!r}"
        else:
            what = (f"along {sym} from {dict(zip([b[0] for b in rb], bad[0]))}: f = {bad[1]!r} then f({sym}+1) = {bad[2]!r}")
        raise Violation(
            f"{fn} [{who}, source {src}] answered {v} for f = {_pretty(desc)}"
            + (f" w.r.t. {sym}" if fn != "geq_leq_zero" else "")
            + f" on box {rb}" + (f" with terms_do_not_cross_zero={tdncz}" if tdncz is not None else "")
            + (f" [sympy itself reports {third}=True for the judged expression, which the box refutes]" if third else "")
            + f", but {what} (truth on the box: {truth}; {scan['n']} points, {'sampled' if scan['sampled'] else 'exhaustive'}, "
              f"{'exact' if scan['exact'] else 'float64'})", key=key)


def _pretty(desc):
    def p(t):
        k = t[0]
        if k == "sym":
            return t[1]
        if k == "int":
            return str(t[1])
        if k == "rat":
            return f"{t[1]}/{t[2]}"
        if k == "flt":
            return repr(t[1])
        if k == "add":
            return "(" + " + ".join(p(c) for c in t[1:]) + ")"
        if k == "mul":
            return "*".join(p(c) for c in t[1:])
        if k == "pow":
            return f"{p(t[1])}**({p(t[2])})"
        if k == "opaque":
            return f"<{t[1]}>"
        return {"max": "Max", "min": "Min", "ceil": "ceiling", "floor": "floor", "heav": "Heaviside"}[k] + "(" + ", ".join(p(c) for c in t[1:]) + ")"
    return p(desc["expr"])[:600]


# ---------------------------------------------------------------------------
# GRAMMAR source
# ---------------------------------------------------------------------------

COEF = {
    "int": [1, 1, 2, 3, 4, 8, 12, 24, 96, 144, 576],
    "rat": [[1, 4], [2, 27], [8, 273], [2, 109], [1, 13], [8, 25], [3, 2]],
    "flt": [0.0137931034482759, 0.110344827586207, 0.5, 12.5, 243.0, 1728.0, 98658.0],
}
HI_POOL = [2, 3, 4, 4, 6, 6, 8, 9, 12, 12]


def _num(family, mag, neg):
    if family == "int":
        return ["int", -mag if neg else mag]
    if family == "rat":
        return ["rat", -mag[0] if neg else mag[0], mag[1]]
    return ["flt", -mag if neg else mag]


@st.composite
def formulas(draw):
    n = draw(st.sampled_from([1, 2, 2, 2, 3, 3, 4]))
    names = [f"s{i}" for i in range(n)]
    bounds = []
    for nm in names:
        hi = draw(st.sampled_from(HI_POOL))
        lo = 1 if draw(st.integers(0, 9)) < 6 else draw(st.integers(1, hi))
        bounds.append([nm, lo, hi])
    hi_of = {b[0]: b[2] for b in bounds}
    family = draw(st.sampled_from(["int", "int", "rat", "flt", "flt"]))
    kind = draw(st.sampled_from(["sum", "sum", "sum", "halo", "halo", "maxmin", "maxmin", "maxmin", "maxconst", "sharedarg",
                                 "sharedarg", "prodmax", "summax", "summax", "roofline", "roofline", "roofline", "heav", "heav",
                                 "ceil", "ceilmax"]))
    has_ceil = kind in ("ceil", "ceilmax")
    profile = draw(st.sampled_from(["pos", "pos", "neg"] if has_ceil else ["pos", "pos", "mixed", "mixed", "mixed", "neg"]))

    def coef(force_pos=False):
        mag = draw(st.sampled_from(COEF[family]))
        neg = False if force_pos else (profile == "neg" or (profile == "mixed" and draw(st.integers(0, 99)) < 40))
        return _num(family, mag, neg)

    def sym_factor(nm):
        e = draw(st.sampled_from([1, 1, 1, 1, -1, -1, -1, 2, -2]))
        return ["sym", nm] if e == 1 else ["pow", ["sym", nm], ["int", e]]

    def ceil_ratio():
        a = draw(st.sampled_from(names))
        form = draw(st.sampled_from(["N/a", "N/a", "N/a", "N/(a*b)", "(N-a)/b"]))
        big = draw(st.sampled_from([hi_of[a], hi_of[a], hi_of[a] + 1, 2 * hi_of[a], 7, 12]))
        if form == "N/a" or n == 1:
            return ["ceil", ["mul", ["int", big], ["pow", ["sym", a], ["int", -1]]]]
        b = draw(st.sampled_from([x for x in names if x != a]))
        if form == "N/(a*b)":
            return ["ceil", ["mul", ["int", big * hi_of[b]], ["pow", ["sym", a], ["int", -1]], ["pow", ["sym", b], ["int", -1]]]]
        big = hi_of[a] + draw(st.integers(0, 4))
        return ["ceil", ["mul", ["add", ["int", big], ["mul", ["int", -1], ["sym", a]]], ["pow", ["sym", b], ["int", -1]]]]

    def mono(with_ceil=False, min_syms=0, force_pos=False):
        k = draw(st.sampled_from([0, 1, 1, 1, 2, 2, 3]))
        k = max(min_syms, min(k, n))
        chosen = list(draw(st.permutations(names)))[:k]
        fac = [sym_factor(nm) for nm in chosen]
        if with_ceil:
            fac.append(ceil_ratio())
        c = coef(force_pos)
        return ["mul", c] + fac if fac else c

    def halo():
        a = draw(st.sampled_from(names))
        if n >= 2 and draw(st.booleans()):
            b = draw(st.sampled_from([x for x in names if x != a]))
            h = ["add", ["sym", a], ["sym", b], ["int", -1]]
            recip = [["pow", ["sym", a], ["int", -1]], ["pow", ["sym", b], ["int", -1]]]
        else:
            h = ["add", ["sym", a], ["int", draw(st.sampled_from([1, 2, 3, -1]))]]
            recip = [["pow", ["sym", a], ["int", -1]]]
        style = draw(st.sampled_from(["plain", "times", "recip"]))
        if style == "plain":
            return ["mul", coef(), h]
        if style == "times":
            return ["mul", coef(), ["sym", draw(st.sampled_from(names))], h]
        return ["mul", coef(), h] + recip

    def sum_(lo_terms=1, hi_terms=4, with_ceil=False, with_halo=False):
        k = draw(st.integers(lo_terms, hi_terms))
        terms = []
        for i in range(k):
            if with_halo and i == 0:
                terms.append(halo())
            elif with_ceil and (i == 0 or draw(st.booleans())):
                terms.append(mono(with_ceil=True))
            else:
                terms.append(mono(min_syms=1 if i == 0 and not with_halo else 0))
        return terms[0] if len(terms) == 1 else ["add"] + terms

    def maxmin(with_ceil=False):
        op = draw(st.sampled_from(["max", "max", "max", "min"]))
        k = draw(st.sampled_from([2, 2, 3]))
        return [op] + [sum_(1, 3, with_ceil=with_ceil) for _ in range(k)]

    def affine():
        if draw(st.integers(0, 3)) == 0:
            a, b = sum_(1, 2), sum_(1, 2)
            return ["add", a, ["mul", ["int", -1], b]], ["add", b, ["mul", ["int", -1], a]]
        ks = draw(st.lists(st.sampled_from([-3, -2, -1, 1, 1, 2, 3]), min_size=n, max_size=n))
        c = draw(st.integers(-12, 12))
        pos = ["add"] + [["mul", ["int", k], ["sym", nm]] for k, nm in zip(ks, names)] + [["int", c]]
        neg = ["add"] + [["mul", ["int", -k], ["sym", nm]] for k, nm in zip(ks, names)] + [["int", -c]]
        return pos, neg

    if kind == "sum":
        tree = sum_(1, 5)
    elif kind == "halo":
        tree = sum_(1, 4, with_halo=True)
    elif kind == "maxmin":
        tree = maxmin()
    elif kind == "maxconst":
        # few distinct left arguments against several constants: exercises the Min/Max argument-elimination cache
        a = draw(st.sampled_from(names))
        left = ["add", ["mul", ["int", draw(st.sampled_from([1, 2, 2, 3]))], ["sym", a]], ["int", draw(st.sampled_from([0, 1, 2]))]]
        op = draw(st.sampled_from(["max", "min"]))
        tree = [op, left, ["int", draw(st.integers(-2, 26))]]
        if draw(st.booleans()):
            tree = ["add", tree, mono()]
    elif kind == "sharedarg":
        # Min(c, Max(x/f, 1))-like network terms: the same argument x meets several constants in one formula (and,
        # the pools being small, across formulas of one process): a stale Min/Max argument-elimination cache shows here
        a = draw(st.sampled_from(names))
        form = draw(st.sampled_from(["s", "a*s+h", "a*s+h", "N/s"]))
        if form == "s":
            x = ["sym", a]
        elif form == "a*s+h":
            x = ["add", ["mul", ["int", draw(st.sampled_from([1, 2, 3]))], ["sym", a]], ["int", draw(st.sampled_from([0, 1, 2]))]]
        else:
            x = ["mul", ["int", hi_of[a]], ["pow", ["sym", a], ["int", -1]]]
        consts = draw(st.lists(st.sampled_from([0, 1, 1, 2, 3, 5, 8, 13, 20, 26]), min_size=2, max_size=3, unique=True))
        nodes = [["mul", coef(), [draw(st.sampled_from(["max", "min"])), x, ["int", c]]] for c in consts]
        tree = ["add"] + nodes
    elif kind == "prodmax":
        tree = ["mul", sum_(1, 2), [draw(st.sampled_from(["max", "max", "min"])), sum_(1, 2), sum_(1, 2)]]
    elif kind == "summax":
        tree = ["add", sum_(1, 2), ["mul", coef(), maxmin()]]
    elif kind == "roofline":
        # total energy with leak power = dynamic terms + leak * Max(latencies): a traffic term c/s next to a Max (or Min)
        # one arm of which grows with s while the other does not depend on s at all
        a = draw(st.sampled_from(names))
        others = [x for x in names if x != a]
        grow = ["mul", ["int", draw(st.sampled_from([1, 2, 4, 8, 10]))], ["sym", a]]
        if others and draw(st.booleans()):
            grow = ["mul", grow, ["sym", draw(st.sampled_from(others))]]
        if others and draw(st.integers(0, 2)) > 0:
            flat = ["sym", draw(st.sampled_from(others))]
            if draw(st.booleans()):
                flat = ["mul", ["int", draw(st.sampled_from([2, 3, 5]))], flat]
        else:
            flat = ["int", draw(st.sampled_from([1, 4, 9, 20, 64]))]
        traffic = ["mul", ["int", draw(st.sampled_from([1, 2, 4, 8, 16, 64]))], ["pow", ["sym", a], ["int", -1]]]
        mm = [draw(st.sampled_from(["max", "max", "min"])), grow, flat]
        if draw(st.integers(0, 3)) == 0:
            mm = ["mul", ["int", draw(st.sampled_from([2, 3]))], mm]
        tree = ["add", mm, traffic]
        if draw(st.integers(0, 3)) == 0:
            tree = ["add", tree, mono()]
    elif kind == "heav":
        pos, neg = affine()
        if draw(st.integers(0, 9)) < 7:
            tree = ["add", ["mul", sum_(1, 2), ["heav", pos]], ["mul", sum_(1, 2), ["heav", neg]]]
        else:
            tree = ["mul", sum_(1, 2), ["heav", pos]]
        if draw(st.booleans()):
            tree = ["add", sum_(1, 2), tree]
    elif kind == "ceil":
        tree = sum_(1, 4, with_ceil=True)
    else:
        tree = maxmin(with_ceil=True)

    # an explicit Heaviside only ever reaches geq_leq_zero (it is the derivative of a Max/Min)
    fn = "geq_leq_zero" if kind == "heav" else draw(st.sampled_from(["geq_leq_zero", "diff_geq_leq_zero", "diff_geq_leq_zero"]))
    d = {"src": "grammar", "kind": kind, "fn": fn, "expr": tree, "bounds": bounds, "symbol": None, "flags": {}}
    if fn == "diff_geq_leq_zero":
        used = BX.symbols_of(tree) or names
        d["symbol"] = draw(st.sampled_from(used if draw(st.integers(0, 9)) else names))
        d["expand"] = False
    else:
        if draw(st.integers(0, 9)) < 4:
            d["flags"] = {"terms_do_not_cross_zero": "if-precondition-holds"}
        d["expand"] = draw(st.integers(0, 3)) == 0
    return d


# ---------------------------------------------------------------------------
# HARVESTED source
# ---------------------------------------------------------------------------

VARIANTS = ["base", "base", "imperfect_temporal", "spatial", "spatial_imperfect", "conv", "conv"]
METRICS = ["ENERGY", "LATENCY", "LATENCY", "ENERGY_DELAY_PRODUCT", "ENERGY|LATENCY"]


@st.composite
def harvest_cases(draw):
    variant = draw(st.sampled_from(VARIANTS))
    shapes = ("matmul",) if variant == "conv" else ("matmul", "matmul", "matvec", "elementwise", "chain2", "elementwise2")
    sp = draw(G.specs(shapes=shapes, levels=(2, 2, 3), metrics=tuple(METRICS), allow_leak=True,
                      finite_tp=True, bound_pool=[2, 3, 4, 4, 6, 6, 8, 9, 12], max_ops=1500))
    if draw(st.booleans()):
        sp["mapper"]["max_fused_loops"] = draw(st.sampled_from([0, 1, 2, "inf"]))
    if variant == "imperfect_temporal":
        sp["mapper"]["explore_imperfect_temporal_loops"] = True
    if variant in ("spatial", "spatial_imperfect"):
        sp["nodes"].insert(len(sp["nodes"]) - 1, {"type": "Container", "name": "PEs",
                                                  "spatial": [{"name": "X", "fanout": draw(st.sampled_from([2, 4]))}]})
        if variant == "spatial_imperfect":
            sp["mapper"]["explore_imperfect_spatial_loops"] = True
    if variant == "conv":
        b = sp["bounds"]
        sp["conv"] = {"p": max(2, b["m"]), "r": draw(st.sampled_from([2, 3])), "c": max(1, min(b["k"], 4)), "m": max(1, min(b["n"], 4))}
    picks = draw(st.lists(st.integers(0, 10_000), min_size=8, max_size=12, unique=True))
    thr = draw(st.sampled_from([1, 1, 8, 64, 1000]))
    return {"variant": variant, "spec": sp, "picks": picks, "threshold": thr}


def build_spec(sp):
    if "conv" not in sp:
        return G.build_spec(sp)
    from accelforge import Spec
    from accelforge.frontend.workload import Workload

    c = sp["conv"]
    wl = Workload(
        einsums=[{"name": "Z", "tensor_accesses": [
            {"name": "A", "projection": {"H": "p + r", "C": "c"}},
            {"name": "B", "projection": {"R": "r", "C": "c", "M": "m"}},
            {"name": "Z", "projection": {"P": "p", "M": "m"}, "output": True}]}],
        iteration_space_shape={rv: f"0 <= {rv} < {n}" for rv, n in c.items()},
        bits_per_value=dict(sp.get("bits", {"All": 8})))
    spec = Spec(arch=G.build_arch(sp), workload=wl)
    for k, v in (sp.get("mapper") or {}).items():
        if k == "metrics":
            spec.mapper.metrics = G.parse_metrics(v)
        else:
            setattr(spec.mapper, k, G.num(v) if isinstance(v, str) else v)
    return spec


MAX_TEMPLATES = 5
MAX_RECORDS_PER_SPEC = 400


def record_to_desc(rec, variant):
    name, a, k, r = rec
    if name == "geq_leq_zero":
        f, bounds = a[0], a[1]
        flags = dict(k)
        if len(a) > 2:
            flags["terms_do_not_cross_zero"] = a[2]
        s = None
    else:
        f, s, bounds = a[0], a[1], a[2]
        flags = {}
    d = {"src": "harvested", "variant": variant, "fn": name, "expr": canon(to_tree(f)),
         "symbol": (s.name if s is not None else None),
         "bounds": [[b[0].name, int(b[1]), int(b[2])] for b in bounds],
         "flags": {kk: bool(vv) for kk, vv in flags.items()}, "verdict": VERDICTS[r.name]}
    return d


def harvest(case, col):
    """Run a few templates of one spec under harvest_verdicts -> list of record descriptors."""
    import time

    from vf import instrument as I

    t0 = time.time()
    try:
        spec = build_spec(case["spec"])
        jobs = I.template_jobs(spec)
    except Exception as e:  # noqa: BLE001 - spec the frontend/template generator rejects: nothing to harvest
        col.label(f"harvest:spec-unusable:{type(e).__name__}")
        return []
    if not jobs:
        col.label("harvest:no-templates")
        return []
    jobs = sorted(jobs, key=lambda j: (-sum(1 for n in j.mapping.nodes if type(n).__name__ in ("Temporal", "Spatial")),
                                       j.mapping.compact_str()))
    jobs = jobs[: max(1, (len(jobs) + 1) // 2)]
    store: list = []
    seen = set()
    for p in case["picks"]:
        i = p % len(jobs)
        if i in seen or len(seen) >= MAX_TEMPLATES or col.over_budget():
            continue
        seen.add(i)
        with I.harvest_verdicts(store, limit=100_000), I.prune_threshold(case["threshold"]):
            try:
                I.run_template(jobs[i])
                col.label("harvest:template-ran")
            except Exception as e:  # noqa: BLE001 - the mapper failing is C08's subject; verdicts issued so far are kept
                col.label(f"harvest:template-raised:{type(e).__name__}")
    col.label(f"harvest:variant:{case['variant']}")
    col.extra[f"harvest_seconds:{case['variant']}"] = round(col.extra.get(f"harvest_seconds:{case['variant']}", 0) + time.time() - t0, 1)
    col.extra["harvested_calls"] = col.extra.get("harvested_calls", 0) + len(store)
    out, ids = [], set()
    for rec in store:
        d = record_to_desc(rec, case["variant"])
        free = set(BX.symbols_of(d["expr"]))
        ident = fp([d["fn"], d["expr"], d["symbol"], sorted(b for b in d["bounds"] if b[0] in free), d["flags"], d["verdict"]])
        if ident in ids:
            continue
        ids.add(ident)
        out.append(d)
        if len(out) >= MAX_RECORDS_PER_SPEC:
            break
    return out


def run_harvest_shard(shard, col):
    import hypothesis
    from hypothesis import HealthCheck, Phase, given, settings

    want = shard["n"]
    done = {"specs": 0}
    seen_specs, seen_recs = set(), set()

    @hypothesis.seed(hash32(shard["seed"], "C09-harvest", shard["k"]))
    @settings(max_examples=want * 4, database=None, deadline=None, suppress_health_check=list(HealthCheck),
              phases=[Phase.generate], print_blob=False)
    @given(harvest_cases())
    def t(case):
        if done["specs"] >= want or col.over_budget():
            return
        key = fp(case["spec"])
        if key in seen_specs:
            return
        seen_specs.add(key)
        recs = harvest(copy.deepcopy(case), col)
        if recs:
            done["specs"] += 1
        for d in recs:
            k = fp([d[x] for x in ("fn", "expr", "symbol", "bounds", "flags", "verdict")])
            if k in seen_recs:
                continue
            seen_recs.add(k)
            if col.over_budget():
                return
            col.run_case(d, check)

    t()
    col.extra["harvest_specs"] = col.extra.get("harvest_specs", 0) + done["specs"]


# ---------------------------------------------------------------------------
# shards
# ---------------------------------------------------------------------------

N_GRAMMAR = {"quick": 320, "thorough": 3200}
N_SPECS = {"quick": 30, "thorough": 300}
GRAMMAR_SHARDS = {"quick": 4, "thorough": 8}
HARVEST_SHARDS = {"quick": 6, "thorough": 8}
QUICK_BUDGET_S = 420
THOROUGH_BUDGET_S = 2400


def shards(tier, seed):
    nh, ng = HARVEST_SHARDS[tier], GRAMMAR_SHARDS[tier]
    out = [{"k": k, "kind": "harvest", "n": max(1, N_SPECS[tier] // nh), "seed": seed} for k in range(nh)]
    out += [{"k": k, "kind": "grammar", "n": N_GRAMMAR[tier] // ng, "seed": seed} for k in range(ng)]
    return out


def run_shard(shard, col):
    if shard["kind"] == "grammar":
        drive(formulas(), check, n=shard["n"], seed=hash32(shard["seed"], "C09-grammar", shard["k"]), col=col)
    else:
        run_harvest_shard(shard, col)


def replay(desc, col):
    check(desc, col)


REGISTER = True
# Mutants M1-M6 were applied on top of regress/C09/suggested_fix.diff (a baseline on which the check is green), M7 with
# tools/mutate.sh on the unchanged tree (where the two genuine keys are present as well); quick tier, --jobs 5, seed 1.
MUTANTS = [
    {"what": "_compare_to_zero: min_check/max_check swapped ((all, any) if check_lt_zero else (any, all))", "caught": True,
     "note": "key sign:max"},
    {"what": "_compare_to_zero: f_range.left/right swapped", "caught": True,
     "note": "keys diff:mixed-sign-sum, diff:posynomial, sign:max, sign:mixed-sign-sum; also with tools/mutate.sh on the unchanged tree"},
    {"what": "partition_heaviside examines only the all-on branch", "caught": True,
     "note": "key diff:minmax-derivative-heaviside-branches-replaced-jointly (Max/Min formulas through diff_geq_leq_zero)"},
    {"what": "_is_connected_cache keyed on x only (stale Min/Max argument elimination)", "caught": True,
     "note": "survived the first generator (Max(x, c) alone stays monotone whatever is dropped); caught after adding the "
             "'sharedarg' kind (one argument meeting several constants in Min and Max nodes): keys sign:max+min:tdncz, diff:minmax-..."},
    {"what": "geq_leq_zero terms_do_not_cross_zero shortcut: min_f > 0 -> min_f >= 0", "caught": True, "note": "key sign:mixed-sign-sum:tdncz"},
    {"what": "_compare_to_zero: function_range over [lo, lo] instead of [lo, hi]", "caught": True,
     "note": "keys diff:ceil, diff:mixed-sign-sum, diff:posynomial, sign:max, sign:mixed-sign-sum"},
    {"what": "unchanged tree: derivative through a ceiling taken as the derivative of its argument (s*ceiling(N/s) 'constant')", "caught": True,
     "note": "genuine, harvested and grammar sources; key diff:ceiling-of-the-symbol-differentiated-as-identity"},
    {"what": "unchanged tree: partition_heaviside switches all Heaviside factors together (Max/Min with arguments of opposite trend)", "caught": True,
     "note": "grammar source only (harvested Max formulas all had same-trend arguments); key diff:minmax-derivative-heaviside-branches-replaced-jointly"},
    {"what": "unchanged tree + sympy 1.14: (-1 + 1/(a*b)).is_nonnegative is True for positive integer symbols; _compare_to_zero trusts `f >= 0`", "caught": True,
     "note": "grammar source, rare (about 1 in 2000 formulas; integer coefficients only); key third-party:sympy-assumption-wrong"},
]
MANIFEST = {
    "level_text": "Random exploration with a brute-force reference: (a) every sign / monotonicity verdict the real mapper issues "
                  "(geq_leq_zero, diff_geq_leq_zero wrapped at module level) while exploring tile shapes of generated small specs in five "
                  "variants (perfect, imperfect temporal/spatial loops, spatial fanout, 1-D convolution), and (b) Hypothesis-generated "
                  "model-shaped formulas (posynomials, halo factors, ceilings of ratios, Max/Min of sums, Heaviside factors; 1-4 symbols, "
                  "boxes within [1,12]) are evaluated on every integer point of the box by an independent evaluator; a GEQ/LEQ/EQUAL "
                  "verdict must hold at every point (sign) or along every lattice line in the symbol (monotonicity); UNKNOWN is accepted "
                  "and its share reported. No counterexample in N verdicts beyond the listed findings; not a proof.",
    "level_note": "Trusted: vf/ref/boxeval.py (exact Fractions; float64 with eps 1e-9*magnitude when float literals occur) and the tree<->sympy "
                  "conversion (harvested formulas are rebuilt and re-judged; a differing fresh verdict is labelled). Boxes above 50 000 points "
                  "are sampled (corners + 20 000 points). Harvested sign records that hold Derivative/Subs nodes are not judged (their "
                  "diff record is). Grammar formulas with ceilings keep one coefficient sign; comparator crashes/timeouts on grammar "
                  "formulas are counted, not reported.",
    "technique": "property-based testing against a brute-force reference (Hypothesis) on harvested and generated inputs",
}
