"""C25 — architecture flattening yields exactly the root-to-compute path.

Descriptor: {"tree": <vf/ref/archtree.py descriptor>, "via": "eval"|"costs", "query": "name"|"object"}
"""

from hypothesis import strategies as st

from vf.core import Violation, drive, must, hash32
from vf.gen.archtree import trees, build_spec
from vf.ref import archtree as R

PROPERTY = "C25"
LEVEL = "exploration"
RULE = (
    "Hypothesis-generated architecture trees (depth <= 4; Memory, Toll, Container, Compute, Fork, nested "
    "Hierarchical; 1-5 computes: side computes in any chain, computes inside Forks, nested Forks and nested "
    "hierarchies; optional useless leaves after a chain's last compute; random fanouts), built with the Python "
    "classes and evaluated (Spec._spec_eval_expressions or calculate_component_costs). For EVERY compute c the "
    "(type, name) list of Spec._get_flattened_architecture(compute_node=c) is compared with the path computed by "
    "one top-down pass over the descriptor (vf/ref/archtree.py); the compute_node=None result is compared with "
    "the list of all paths in tree order. Non-trivial: >=2 computes and, for some compute, a Fork that does not "
    "contain it and a leaf after it. Distinct = distinct tree."
)
ASSUMPTIONS = [
    "every Fork contains a Compute; the top-level chain starts with a Memory and contains a Compute; leaf names "
    "are unique",
    "Array and Network nodes are not generated (the property lists Memory, Toll, Container, Compute, Fork and "
    "nested hierarchies)",
    "order of the compute_node=None result = tree (pre-)order of the Compute nodes",
]


@st.composite
def cases(draw):
    return {"tree": draw(trees(costs="none", trailing=True)),
            "via": draw(st.sampled_from(["eval", "eval", "costs"])),
            "query": draw(st.sampled_from(["name", "name", "object"]))}


def _has(tree, pred):
    def rec(nodes, inside):
        for n in nodes:
            if pred(n, inside):
                return True
            if n["t"] in R.BRANCH and rec(n["nodes"], inside + [n["t"]]):
                return True
        return False

    return rec(tree["nodes"], [])


def check(desc, col):
    from accelforge.frontend.arch import Compute

    tree = desc["tree"]
    w = R.walk(tree)
    comps = w["computes"]
    order = w["order"]
    nontrivial = False
    labels = [f"computes:{len(comps)}", f"depth:{R.max_depth(tree)}", "via:" + desc["via"], "query:" + desc["query"]]
    for c in comps:
        foreign = R.forks_not_containing(tree, c)
        after = order.index(c) < len(order) - 1
        if foreign:
            labels.append("target-with-foreign-fork")
        if after:
            labels.append("target-with-leaf-after")
        if foreign and after and len(comps) >= 2:
            nontrivial = True
            labels.append("target:foreign-fork+leaf-after")
        if w["side_before"][c]:
            labels.append("target-after-side-compute")
        if w["in_fork"][c]:
            labels.append("target-inside-fork")
    if _has(tree, lambda n, inside: n["t"] == "Hier"):
        labels.append("nested-hierarchical")
    if _has(tree, lambda n, inside: n["t"] == "Compute" and inside and inside[-1] == "Hier"):
        labels.append("compute-directly-in-nested-hierarchical")
    if _has(tree, lambda n, inside: n["t"] == "Fork" and "Fork" in inside):
        labels.append("fork-inside-fork")
    if _has(tree, lambda n, inside: n["t"] == "Fork" and inside and inside[-1] == "Hier"):
        labels.append("fork-inside-nested-hierarchical")
    if any(not any(x in w["paths"][c] for c in comps) for x in order if w["kind"][x] != "Compute"):
        labels.append("leaf-on-no-path")
    labels = sorted(set(labels))
    col.case(tree, nontrivial, labels, sample={"tree": _brief(tree), "paths": w["paths"]})

    spec = must(build_spec, tree, what="Spec(arch=Arch(...))")
    if desc["via"] == "eval":
        ev = must(spec._spec_eval_expressions, what="Spec._spec_eval_expressions")
    else:
        ev = must(spec.calculate_component_costs, what="Spec.calculate_component_costs")

    def names(fl):
        return [[type(n).__name__, n.name] for n in fl]

    def want(c):
        return [[w["kind"][x], x] for x in w["paths"][c]]

    for c in comps:
        arg = c
        if desc["query"] == "object":
            arg = ev.arch.find(c)
            if not isinstance(arg, Compute):
                raise Violation(f"arch.find({c!r}) returned {type(arg).__name__}", key="find")
        got = names(must(ev._get_flattened_architecture, compute_node=arg,
                         what=f"_get_flattened_architecture(compute_node={c})", key="flatten-raises"))
        if got != want(c):
            raise Violation(_explain(c, got, want(c), w, tree), key=_key(c, got, want(c), w))
    allp = must(ev._get_flattened_architecture, what="_get_flattened_architecture()", key="flatten-all-raises")
    got_all = [names(f) for f in allp]
    if got_all != [want(c) for c in comps]:
        raise Violation(f"_get_flattened_architecture() returned {got_all}, expected one path per compute in tree "
                        f"order {[want(c) for c in comps]}", key="all-paths")


def _brief(tree):
    def rec(nodes):
        out = []
        for n in nodes:
            if n["t"] in R.BRANCH:
                out.append({n["t"]: rec(n["nodes"])})
            else:
                out.append(n["name"] + ("x" + "x".join(map(str, n["fan"])) if n.get("fan") else ""))
        return out

    return rec(tree["nodes"])


def _key(c, got, want, w):
    g, wn = [x[1] for x in got], [x[1] for x in want]
    extra = [x for x in g if x not in wn]
    missing = [x for x in wn if x not in g]
    if extra:
        if any(w["kind"].get(x) == "Compute" for x in extra):
            return "path:foreign-compute-included"
        if any(w["in_fork"].get(x) and not w["in_fork"][c] for x in extra) or any(
                x not in w["above"][c] and w["in_fork"].get(x) for x in extra):
            return "path:foreign-fork-included"
        return "path:extra-nodes"
    if missing:
        return "path:missing-nodes"
    if g != wn:
        return "path:order"
    return "path:node-types"


def _explain(c, got, want, w, tree):
    return (f"flattened architecture for compute {c}: got {[x[1] for x in got]}, the root-to-compute path is "
            f"{[x[1] for x in want]} (types got {[x[0] for x in got]}); tree={_brief(tree)}")


N = {"quick": 1200, "thorough": 12000}
NSHARDS = {"quick": 6, "thorough": 16}


def shards(tier, seed):
    return [{"k": k, "n": N[tier] // NSHARDS[tier], "seed": seed} for k in range(NSHARDS[tier])]


def run_shard(shard, col):
    drive(cases(), check, n=shard["n"], seed=hash32(shard["seed"], "C25", shard["k"]), col=col)


def replay(desc, col):
    check(desc, col)


MUTANTS = [  # structure.py, scratch worktree, quick tier seed 1
    {"what": "Hierarchical._flatten: Forks that do not contain the target are no longer skipped (`if False: continue`)",
     "caught": True, "keys": ["flatten-raises"]},
    {"what": "Hierarchical._flatten: no `break` after a sub-hierarchy/Fork that held the target (main chain continues)",
     "caught": True, "keys": ["flatten-raises"]},
    {"what": "Hierarchical._flatten: every Compute met on the way is appended, not only the target",
     "caught": True, "keys": ["path:foreign-compute-included"]},
    {"what": "Hierarchical._flatten: nested non-Fork Hierarchical nodes are skipped instead of recursed into",
     "caught": True, "keys": ["flatten-raises", "path:missing-nodes"]},
    {"what": "ArchNode.find: only the first child of a branch is searched",
     "caught": True, "keys": ["crash:ValueError", "flatten-raises"]},
]

REGISTER = True
MANIFEST = {
    "level_text": "Random exploration: Hypothesis-generated architecture trees (depth <= 4, 1-5 computes, Forks, "
                  "nested hierarchies, side computes, trailing leaves); every compute of every tree is flattened and "
                  "compared with an independently computed root-to-compute path. Nothing is claimed beyond the "
                  "sampled trees.",
    "level_note": "Trusted: vf/ref/archtree.py (single top-down pass written from docs/source/guide/spec/"
                  "architecture.rst). Array/Network nodes are outside the generator.",
    "technique": "property-based testing (Hypothesis) against a reference model",
}
