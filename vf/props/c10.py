"""C10 — tile-shape candidates and mapspace counts are complete and exact.

Finite domain, enumerated completely (no Hypothesis needed: the generator is
itertools-style enumeration, sharded by outer % nshards)."""

from itertools import product

from vf.core import Violation, must
from vf.ref import factor as R

PROPERTY = "C10"
LEVEL = "exploration"
EXHAUSTIVE = True
RULE = (
    "Exhaustive enumeration. sizes: every outer<=LIMIT, every inner|outer, both modes, coarseness 1, "
    "compared with the divisor set (perfect) / required smallest-shape-per-tile-count set + <=outer bound "
    "(imperfect). count: every n<=NLIMIT and every pattern in {F,T}^(0..4) compared with an explicit "
    "listing of factorisation chains. Non-trivial: outer/inner (resp. n with pattern length>=2) has >=2 "
    "distinct primes or is a perfect square >1; distinct = distinct (kind, args)."
)
ASSUMPTIONS = [
    "inner divides outer (the property's stated domain)",
    "a factorisation chain is a tuple of loop trip counts; an imperfect loop with trip count f leaves ceil(r/f)",
]
LIMITS = {"quick": (512, 64), "thorough": (4096, 256)}
NSHARDS = 16


def shards(tier, seed):
    lim, nlim = LIMITS[tier]
    return [{"k": k, "outer_limit": lim, "n_limit": nlim} for k in range(NSHARDS)]


def _fns():
    from accelforge.mapper.FFM._make_pmappings.make_pmappings_from_templates.make_tile_shapes import (
        get_possible_factor_sizes,
    )
    from accelforge.util._mathfuncs import _count_factorizations

    return get_possible_factor_sizes, _count_factorizations


def check(desc, col):
    gpfs, cf = _fns()
    if desc["kind"] == "sizes":
        outer, inner, imp = desc["outer"], desc["inner"], desc["imperfect"]
        got = must(gpfs, outer, imp, inner, 1, what="get_possible_factor_sizes")
        got = [int(x) for x in got]
        q = outer // inner
        nt = q > 1 and (R.distinct_primes(q) >= 2 or R.is_square(q))
        col.case(desc, nt, labels=["sizes:" + ("imperfect" if imp else "perfect")],
                 sample={"case": desc, "result": got} if nt and outer % 97 == 60 else None)
        if len(set(got)) != len(got):
            raise Violation(f"duplicate candidates {got} for {desc}", key="sizes:duplicates")
        if not imp:
            want = R.divisors_between(inner, outer)
            if sorted(got) != want:
                raise Violation(f"perfect candidates {sorted(got)} != divisor set {want} for {desc}",
                                key="sizes:perfect")
        else:
            if any(g > outer or g < 1 for g in got):
                raise Violation(f"imperfect candidate out of [1,outer]: {got} for {desc}", key="sizes:imperfect-range")
            req = R.required_imperfect(inner, outer)
            missing = sorted(req - set(got))
            if missing:
                raise Violation(f"imperfect candidates {sorted(got)} miss smallest shapes {missing} for {desc}",
                                key="sizes:imperfect-missing")
    else:
        n, pattern = desc["n"], tuple(bool(b) for b in desc["pattern"])
        got = must(cf, n, pattern, what="_count_factorizations")
        ref = R.chains(n, pattern)
        nt = len(pattern) >= 2 and n > 1 and (R.distinct_primes(n) >= 2 or R.is_square(n))
        col.case(desc, nt, labels=[f"count:len{len(pattern)}"],
                 sample={"case": desc, "count": int(got), "some_chains": ref[:4]} if nt and n % 37 == 12 and len(pattern) == 3 else None)
        if len(set(ref)) != len(ref):
            raise Violation("reference listed a chain twice", key="harness")
        if int(got) != len(ref):
            raise Violation(f"_count_factorizations({n},{pattern})={got} but {len(ref)} chains exist", key="count")


def run_shard(shard, col):
    k = shard["k"]
    for outer in range(1, shard["outer_limit"] + 1):
        if outer % NSHARDS != k:
            continue
        for inner in range(1, outer + 1):
            if outer % inner:
                continue
            for imp in (False, True):
                col.run_case({"kind": "sizes", "outer": outer, "inner": inner, "imperfect": imp}, check)
    pats = [p for L in range(0, 5) for p in product([False, True], repeat=L)]
    for n in range(1, shard["n_limit"] + 1):
        if n % NSHARDS != k:
            continue
        for p in pats:
            col.run_case({"kind": "count", "n": n, "pattern": list(p)}, check)
    col.exhaustive = True


def replay(desc, col):
    check(desc, col)

REGISTER = True
MANIFEST = {
    "level_text": "Exhaustive enumeration of a finite domain: every (outer<=512/4096, inner|outer, mode) and every (n<=64/256, imperfection pattern of length<=4) is compared with a brute-force reference; within those bounds the property is decided, beyond them nothing is claimed.",
    "level_note": "Trusted: vf/ref/factor.py (30 lines, explicit listing of divisors and chains). Reading of 'factorisation chain' = tuple of loop trip counts (DESIGN.md C10). coarseness fixed at 1.",
    "technique": "exhaustive enumeration against a brute-force reference model",
}
