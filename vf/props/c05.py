"""C05 — model action counts, energy and latency match explicit LoopTree execution."""

from hypothesis import strategies as st

from vf.core import Violation, close, drive, hash32, must
from vf.gen import mapping as GM
from vf.gen import spec as G
from vf.ref import looptree_exec as RX

PROPERTY = "C05"
LEVEL = "exploration"
TOLERANCE = "rel 1e-6 on every count/energy/latency (values are small integers or dyadic rationals)"
RULE = (
    "Hypothesis-generated concrete single-Einsum mappings (matmul/matvec/elementwise/batched/outer/reduce, bounds<=6, "
    "2-3 memory levels, per-rank divisor chains interleaved in random order, storage nodes for each (lower level, tensor) "
    "at random depths respecting per-tensor hierarchy order, random per-action energy/throughput, workload and per-memory "
    "bits_per_value, bits_per_action/values_per_action at component and action level, skip_initial_output_write flags, "
    "leak) evaluated by evaluate_mapping and by the literal executor vf/ref/looptree_exec.py; every action count, compute "
    "count, per-component latency, total latency, dynamic/leak/total energy compared. Non-trivial: a storage node sits "
    "below a loop AND some tensor is refetched (fills > tensor size) AND some output tile is revisited after a reduction "
    "loop. Distinct = distinct (spec, tree) descriptor."
)
ASSUMPTIONS = [
    "skip-flag attribution: read at source P by child C skipped iff P.skip and C.skip; fill write into C skipped iff C.skip (DESIGN 4.2)",
    "memory sizes are infinite here (capacity is C06's subject)",
    "temporal loops only, dense single-variable projections, perfect factorisation (the property's stated domain)",
]

ENERGIES = [0, 0.5, 1, 2, 3, 7, 0.125]
TPS = ["inf", 1, 2, 4, 0.5, 8]


@st.composite
def cases(draw, with_knobs=True):
    wl = draw(GM.single_einsum_workload())
    tensors = [t for t, _, _ in wl["einsums"][0]["tensors"]]
    nlev = draw(st.sampled_from([2, 2, 3]))
    lower = ["GLB", "Reg"][: nlev - 1]
    b0 = draw(st.sampled_from([8, 8, 16, 4]))
    bits = {"All": b0}
    if with_knobs and draw(st.booleans()):
        t0 = draw(st.sampled_from(tensors))   # keys of a set-expression dict must not overlap
        bits = {"~" + t0: b0, t0: draw(st.sampled_from([2, 4, 8, 32]))}
    nodes = []
    for name in ["Main"] + lower:
        n = {"type": "Memory", "name": name, "size": "inf", "keep": "All" if name == "Main" else "Nothing",
             "may_keep": "All",
             "read": [draw(st.sampled_from(ENERGIES)), draw(st.sampled_from(TPS))],
             "write": [draw(st.sampled_from(ENERGIES)), draw(st.sampled_from(TPS))],
             "leak": draw(st.sampled_from([0, 0, 1, 0.25]))}
        if with_knobs:
            if draw(st.integers(0, 3)) == 0:
                n["bits_per_value"] = {draw(st.sampled_from(tensors)): draw(st.sampled_from([2, 4, 16]))}
            if draw(st.integers(0, 3)) == 0:
                n["bits_per_action"] = draw(st.sampled_from([2, 8, 16, 64]))
            if draw(st.integers(0, 4)) == 0:
                n["values_per_action"] = {draw(st.sampled_from(tensors)): draw(st.sampled_from([2, 4, 0.5]))}
            for a in ("read", "write"):
                if draw(st.integers(0, 4)) == 0:
                    ex = {}
                    if draw(st.booleans()):
                        ex["bits_per_action"] = draw(st.sampled_from([4, 8, 32]))
                    else:
                        ex["values_per_action"] = {draw(st.sampled_from(tensors)): draw(st.sampled_from([2, 8, 0.25]))}
                    n[a + "_extra"] = ex
            if draw(st.integers(0, 3)) == 0:
                n["skip_initial_output_write"] = False
        nodes.append(n)
    mac = {"type": "Compute", "name": "MAC", "compute": [draw(st.sampled_from(ENERGIES)), draw(st.sampled_from([1, 2, 0.5, 4]))],
           "leak": draw(st.sampled_from([0, 0, 2]))}
    if with_knobs and draw(st.integers(0, 3)) == 0:
        mac["skip_initial_output_write"] = False
    nodes.append(mac)
    loops = draw(GM.loop_nest(wl["bounds"]))
    body = draw(GM.place_storage(loops, tensors, lower))
    tree = [{"k": "storage", "level": "Main", "tensors": tensors}] + body + [{"k": "compute", "einsum": "E", "level": "MAC"}]
    spec = {"einsums": wl["einsums"], "bounds": wl["bounds"], "bits": bits, "nodes": nodes, "shape": wl["shape"]}
    return {"spec": spec, "tree": tree}


def evaluate(desc):
    """accelforge side: {column: value}"""
    import accelforge as af
    from accelforge.model.main import evaluate_mapping

    af.set_n_parallel_jobs(1)
    spec = G.build_spec(desc["spec"], apply_mapper=False)
    spec.mapping = GM.to_af_mapping(desc["tree"])
    r = evaluate_mapping(spec)
    row = r.data.iloc[0]
    return {c: row[c] for c in r.data.columns if "mapping" not in c}


def compare(desc, got, ref, col_labels=None):
    """got: accelforge columns; ref: RX.summarize output.  Raise Violation on mismatch."""
    E = desc["spec"]["einsums"][0]["name"]
    SEP = "<SEP>"
    # actions
    model_actions = {}
    for c, v in got.items():
        p = c.split(SEP)
        if len(p) == 5 and p[0] == E and p[1] == "action":
            model_actions[(p[2], p[3], p[4])] = float(v)
    for key in sorted(set(model_actions) | set(ref["actions"]) | {(k[0], "None", "compute") for k in ref["compute"]}):
        if key[2] == "compute":
            want = sum(v for (lv, e), v in ref["compute"].items() if lv == key[0])
        else:
            want = ref["actions"].get(key, 0.0)
        have = model_actions.get(key, 0.0)
        if not close(have, want, rel=1e-6, abs_=1e-9):
            raise Violation(f"action count {key}: model {have} vs executed {want}", key=f"action:{key[2]}")
    for lv, want in ref["latency"].items():
        c = f"{E}{SEP}latency{SEP}{lv}"
        if c in got and not close(float(got[c]), want, rel=1e-6):
            raise Violation(f"latency of {lv}: model {float(got[c])} vs executed {want}", key="latency:component")
    checks = [("Total<SEP>latency", ref["total_latency"], "latency:total"),
              ("Total<SEP>dynamic_energy", ref["dynamic_energy"], "energy:dynamic"),
              ("Total<SEP>leak_energy", ref["leak_energy"], "energy:leak"),
              ("Total<SEP>energy", ref["total_energy"], "energy:total")]
    for c, want, key in checks:
        if c not in got:
            raise Violation(f"model output lacks column {c}", key="missing-column")
        if not close(float(got[c]), want, rel=1e-6, abs_=1e-9):
            raise Violation(f"{c}: model {float(got[c])} vs executed {want}", key=key)


def check(desc, col):
    einsums, bounds, comps, wl_bits = GM.to_ref(desc)
    ex = RX.Executor(einsums, bounds, comps, wl_bits)
    res = ex.run(desc["tree"])
    ref = RX.summarize(res, comps, wl_bits)
    # classification
    tree = desc["tree"]
    seen_loop = False
    below_loop = False
    for n in tree[1:]:
        if n["k"] == "loop":
            seen_loop = True
        if n["k"] == "storage" and seen_loop:
            below_loop = True
    sizes = {t: 1 for t in wl_bits}
    for t, p, _ in desc["spec"]["einsums"][0]["tensors"]:
        for v in p:
            sizes[t] *= bounds[v]
    refetched = any(a == "read" and lv == "Main" and v > sizes[t] + 1e-9 for (lv, t, a), v in res.values.items())
    nontrivial = below_loop and refetched and res.output_revisited
    sp = desc["spec"]
    knobs = [k for n in sp["nodes"] for k in ("bits_per_value", "bits_per_action", "values_per_action", "read_extra",
                                              "write_extra", "skip_initial_output_write") if k in n]
    labels = [f"shape:{sp.get('shape')}", f"levels:{len(sp['nodes']) - 1}", "below_loop" if below_loop else "all_on_top",
              "refetched" if refetched else "no_refetch", "out_revisit" if res.output_revisited else "no_out_revisit"]
    labels += sorted({"knob:" + k for k in knobs}) or ["knob:none"]
    col.case(desc, nontrivial, labels, sample={"tree": [_short(n) for n in tree], "bounds": bounds,
                                              "total_energy": ref["total_energy"], "total_latency": ref["total_latency"]})
    got = must(evaluate, desc, what="evaluate_mapping")
    compare(desc, got, ref)


def _short(n):
    if n["k"] == "loop":
        return f"for {n['rv']} tile {n['tile']}"
    if n["k"] == "storage":
        return f"{n['level']}[{','.join(n['tensors'])}]"
    return f"compute {n['einsum']}@{n['level']}"


N = {"quick": 480, "thorough": 6400}
NSHARDS = 16


def shards(tier, seed):
    return [{"k": k, "n": N[tier] // NSHARDS, "seed": seed} for k in range(NSHARDS)]


def run_shard(shard, col):
    drive(cases(), check, n=shard["n"], seed=hash32(shard["seed"], "C05", shard["k"]), col=col)


def replay(desc, col):
    check(desc, col)

REGISTER = True
MUTANTS = [
    {"what": "_stats.repeat_temporal scales skipped_first on irrelevant loops too", "caught": True},
    {"what": "_get_values_per_action: component-level values_per_action takes precedence over action-level", "caught": True},
    {"what": "analyze_storage: write-back counted for inputs too", "caught": True},
    {"what": "energy.py: leak energy uses half the overall latency", "caught": True},
]
MANIFEST = {
    "level_text": "Differential testing of evaluate_mapping against an independent literal loop-nest executor on generated concrete mappings: every per-(component,tensor) read/write action count, compute count, per-component latency, total latency and dynamic/leak/total energy must agree. No counterexample in N generated mappings of the stated classes; not a proof.",
    "level_note": "Trusted: vf/ref/looptree_exec.py (literal execution, element-level first-touch sets) and the skip-flag attribution rule stated in ASSUMPTIONS. Domain: single Einsum, temporal loops, dense single-variable projections, perfect factorisation, infinite memory sizes.",
    "technique": "property-based differential testing against a reference executor (Hypothesis)",
}
