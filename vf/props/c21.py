"""C21 -- spec expressions evaluate in dependency order with correct scoping.

Random DAGs of integer definitions spread over four nested kinds of scope
    Spec.variables  <  Arch.variables  <  component.extra_attributes_for_component_model
                                        <  the component's typed numeric fields
(2 Memories + 1 Compute, so there are sibling scopes), written in a random key order, with
names shared between scopes (shadowing) and names that are substrings of each other and of
the function names used (a / ab / abs, ma / ax / max).  Acyclic: every evaluated field of
``Spec._spec_eval_expressions()`` must equal the reference (vf/ref/exprs.py).  Cyclic
variant: one back edge inside one scope => EvaluationError.
"""

from hypothesis import strategies as st

from vf.core import Violation, drive, must, hash32
from vf.ref import exprs as X

PROPERTY = "C21"
LEVEL = "exploration"
RULE = (
    "Hypothesis: 3-14 definitions over + abs(-) * // min max in Spec.variables, Arch.variables and, for each of "
    "Mem0/Mem1 (Memory) and mac (Compute), extra_attributes_for_component_model plus typed fields (size, area, leak_power, "
    "energy_scale, area_scale, leak_power_scale); names from a 10-name pool shared by all scopes (shadowing, substring "
    "names); each definition references earlier definitions of its own scope (in a hidden topological order) and "
    "non-shadowed outer names; keys written in a random permutation. Cyclic variant (1 in 4): one back edge inside one "
    "scope, usually with the cycle's names also defined in an outer scope. Non-trivial (acyclic): longest dependency "
    "chain >=3, >=1 definition written before (key order and sorted order) a same-scope definition it needs, >=1 "
    "reference to a name that is defined in two scopes of its chain; (cyclic): every case. Distinct = distinct descriptor."
)
ASSUMPTIONS = [
    "no self-references (x: x + 1 with x in an outer scope is ambiguous and excluded, as in DESIGN.md)",
    "a component's expressions mention one of its typed field names only if the component sets that field (an unset field is "
    "still a key of the current object, with value None)",
    "extra attribute names are disjoint from the component's typed field names",
    "all values are non-negative integers (subtraction only as abs(a - b), // only by a positive literal)",
    "observed through Spec._spec_eval_expressions() only; calculate_component_costs() (needs component models) is not exercised",
]

POOL = ["a", "ab", "x", "ax", "xa", "va", "va2", "n_x", "m", "ma"]
FIELDS = {"Memory": ["size", "area", "leak_power", "energy_scale", "area_scale", "leak_power_scale"],
          "Compute": ["area", "leak_power", "energy_scale", "area_scale", "leak_power_scale"]}
COMPONENTS = [["Mem0", "Memory"], ["Mem1", "Memory"], ["mac", "Compute"]]


def _parents():
    p = {"spec": None, "arch": "spec"}
    for name, _ in COMPONENTS:
        p[f"{name}.extras"] = "arch"
        p[f"{name}.fields"] = f"{name}.extras"
    return p


PARENTS = _parents()


def _scopes(desc):
    return {s: {"parent": PARENTS[s], "defs": desc["scopes"].get(s, [])} for s in PARENTS}


@st.composite
def expr(draw, names, depth):
    if not names or depth <= 0 or draw(st.integers(0, 3)) == 0:
        if names and draw(st.integers(0, 3)) > 0:
            return ["var", draw(st.sampled_from(names))]
        return ["lit", draw(st.integers(0, 9))]
    op = draw(st.sampled_from(["add", "add", "absdiff", "mul", "fdiv", "min", "max"]))
    a = draw(expr(names, depth - 1))
    if op == "fdiv":
        return ["fdiv", a, draw(st.integers(1, 4))]
    return [op, a, draw(expr(names, depth - 1))]


@st.composite
def cases(draw):
    scopes = {}

    def make(sid, names, banned_outer=()):
        """names: this scope's names in (hidden) topological order."""
        outer = []
        for anc in list(X.chain({s: {"parent": PARENTS[s]} for s in PARENTS}, sid))[1:]:
            outer += [n for n, _ in scopes.get(anc, [])]
        outer = sorted({n for n in outer if n not in names and n not in banned_outer})
        defs = []
        for i, n in enumerate(names):
            usable = names[:i] * 2 + outer
            t = draw(expr(usable, draw(st.integers(0, 3))))
            # make sure most definitions really depend on something
            if usable and not X.refs(t) and draw(st.integers(0, 3)) > 0:
                t = ["add", t, ["var", draw(st.sampled_from(usable))]]
            defs.append([n, t])
        scopes[sid] = defs

    make("spec", draw(st.lists(st.sampled_from(POOL), min_size=1, max_size=5, unique=True)))
    make("arch", draw(st.lists(st.sampled_from(POOL), min_size=0, max_size=4, unique=True)))
    for cname, kind in COMPONENTS:
        fields = draw(st.lists(st.sampled_from(FIELDS[kind]), min_size=0, max_size=4, unique=True))
        if kind == "Memory" and "size" not in fields:
            fields.insert(draw(st.integers(0, len(fields))), "size")
        make(f"{cname}.extras", draw(st.lists(st.sampled_from(POOL), min_size=0, max_size=3, unique=True)))
        # an unset typed field would shadow an outer variable of the same name with None
        make(f"{cname}.fields", fields, banned_outer=[f for f in FIELDS[kind] if f not in fields])
    # let outer scopes sometimes define a typed-field name too (shadowed by the component that sets it)
    if draw(st.integers(0, 2)) == 0:
        sid = draw(st.sampled_from(["spec", "arch"]))
        nm = draw(st.sampled_from(["area", "size", "leak_power"]))
        if all(n != nm for n, _ in scopes[sid]):
            scopes[sid].append([nm, ["lit", draw(st.integers(1, 9))]])
    cyclic = None
    if draw(st.integers(0, 3)) == 0:
        cands = [s for s, d in scopes.items() if len(d) >= 2]
        inner = [s for s in cands if s != "spec"]
        if cands:
            sid = draw(st.sampled_from(inner)) if inner and draw(st.integers(0, 4)) > 0 else draw(st.sampled_from(cands))
            defs = scopes[sid]
            j = draw(st.integers(1, len(defs) - 1))
            i = draw(st.integers(0, j - 1))
            ni, nj = defs[i][0], defs[j][0]
            # j (later in topological order) must need i, and i gets a back edge to j
            if ni not in X.refs(defs[j][1]):
                defs[j][1] = [draw(st.sampled_from(["add", "max", "mul"])), defs[j][1], ["var", ni]]
            defs[i][1] = [draw(st.sampled_from(["add", "min", "absdiff"])), defs[i][1], ["var", nj]]
            if PARENTS[sid] is not None and draw(st.integers(0, 3)) > 0:
                # the cycle's names also exist outside: a wrong evaluation order would silently produce values
                # (nothing references these late additions, so the unset-field rule above still holds)
                anc = "spec" if sid == "arch" or draw(st.booleans()) else "arch"
                for n in (ni, nj):
                    if all(x != n for x, _ in scopes[anc]):
                        scopes[anc].append([n, ["lit", draw(st.integers(1, 9))]])
            cyclic = {"scope": sid, "names": [ni, nj]}
    # key order: a random permutation per scope
    out = {}
    for sid, defs in scopes.items():
        out[sid] = list(draw(st.permutations(defs))) if defs else []
    return {"scopes": out, "cyclic": cyclic}


def _val(t):
    return t[1] if t[0] == "lit" else X.render(t)


def _build(desc):
    from accelforge.frontend.spec import Spec
    from accelforge.frontend.variables import Variables
    import accelforge.frontend.arch as A

    sc = desc["scopes"]
    nodes = []
    for cname, kind in COMPONENTS:
        kw = {n: _val(t) for n, t in sc.get(f"{cname}.fields", [])}
        ex = {n: _val(t) for n, t in sc.get(f"{cname}.extras", [])}
        if ex:
            kw["extra_attributes_for_component_model"] = ex
        nodes.append(getattr(A, kind)(name=cname, **kw))
    arch = A.Arch(variables={n: _val(t) for n, t in sc.get("arch", [])}, nodes=nodes)
    return Spec(variables=Variables(**{n: _val(t) for n, t in sc.get("spec", [])}), arch=arch)


def _observe(ev):
    """-> {(scope, name): value} for every key present in the evaluated spec's four kinds of scope."""
    out = {}
    for k in ev.variables.get_fields():
        out[("spec", k)] = ev.variables[k]
    for k in ev.arch.variables.get_fields():
        out[("arch", k)] = ev.arch.variables[k]
    for cname, kind in COMPONENTS:
        c = ev.arch.find(cname)
        ex = c.extra_attributes_for_component_model
        for k in ex.get_fields():
            out[(f"{cname}.extras", k)] = ex[k]
        for f in FIELDS[kind]:
            out[(f"{cname}.fields", f)] = getattr(c, f)
    return out


DEFAULTS = {"area": None, "leak_power": None, "energy_scale": 1, "area_scale": 1, "leak_power_scale": 1}


def check(desc, col):
    from accelforge.util.exceptions import EvaluationError

    scopes = _scopes(desc)
    cyc = desc["cyclic"]
    try:
        want = X.evaluate_all(scopes)
        ref_cycle = None
    except X.Cycle as c:
        want, ref_cycle = None, c
    if (ref_cycle is None) != (cyc is None):
        raise AssertionError(f"generator/reference disagree on cyclicity: {cyc} vs {ref_cycle}")

    # ---- classification
    n_defs = sum(len(s["defs"]) for s in scopes.values())
    labels = [f"defs:{min(n_defs, 14) // 3 * 3}+", "cyclic" if cyc else "acyclic"]
    shadow_defs = sum(1 for s, sc in scopes.items() for n, _ in sc["defs"]
                      if any(X.resolve(scopes, a, n) for a in list(X.chain(scopes, s))[1:2]))
    shadow_refs = ooo_key = ooo_sorted = cross_scope = 0
    for s, sc in scopes.items():
        order = [n for n, _ in sc["defs"]]
        for n, t in sc["defs"]:
            for r in set(X.refs(t)):
                rs = X.resolve(scopes, s, r)
                if rs == s:
                    if order.index(n) < order.index(r):
                        ooo_key += 1
                    if n < r:
                        ooo_sorted += 1
                else:
                    cross_scope += 1
                definers = [a for a in X.chain(scopes, s) if any(x == r for x, _ in scopes[a]["defs"])]
                if len(definers) >= 2:
                    shadow_refs += 1
    if shadow_defs:
        labels.append("shadowing:name-defined-in-inner-and-outer-scope")
    if shadow_refs:
        labels.append("shadowing:referenced-name-defined-twice-on-chain")
    if ooo_key:
        labels.append("out-of-order:key-order")
    if ooo_sorted:
        labels.append("out-of-order:sorted-order")
    if cross_scope:
        labels.append("cross-scope-reference")
    for kind in ("extras", "fields"):
        if any(scopes[f"{c}.{kind}"]["defs"] for c, _ in COMPONENTS):
            labels.append(f"scope:component-{kind}")
    if scopes["arch"]["defs"]:
        labels.append("scope:arch-variables")
    if cyc:
        labels.append("cycle-in:" + cyc["scope"].split(".")[-1])
        outer = [a for a in list(X.chain(scopes, cyc["scope"]))[1:]]
        shadowed = all(any(x == n for a in outer for x, _ in scopes[a]["defs"]) for n in cyc["names"])
        labels.append("cycle-names-also-defined-outside" if shadowed else "cycle-names-only-inside")
        nontrivial = True
    else:
        depth = X.longest_chain(scopes)
        labels.append(f"chain-depth:{min(depth, 6)}")
        nontrivial = depth >= 3 and ooo_key >= 1 and ooo_sorted >= 1 and shadow_refs >= 1
    col.case(desc, nontrivial, labels,
             sample={"scopes": {s: {n: _val(t) for n, t in d} for s, d in desc["scopes"].items() if d}, "cyclic": cyc})

    spec = must(_build, desc, what="building the spec")
    text = {s: {n: _val(t) for n, t in d} for s, d in desc["scopes"].items() if d}
    if cyc:
        try:
            ev = spec._spec_eval_expressions()
        except EvaluationError:
            return
        except Exception as ex:  # noqa: BLE001
            raise Violation(f"cyclic definitions {cyc} raised {type(ex).__name__} instead of EvaluationError: {str(ex)[:300]}; {text}",
                            key=f"cycle-wrong-error:{type(ex).__name__}")
        got = _observe(ev)
        vals = {n: got.get((cyc["scope"], n)) for n in cyc["names"]}
        raise Violation(f"dependency cycle between {cyc['names']} in {cyc['scope']} produced values {vals} instead of an "
                        f"EvaluationError; definitions {text}", key="cycle-produced-value")

    ev = must(spec._spec_eval_expressions, what=f"_spec_eval_expressions() on acyclic definitions {text}")
    got = _observe(ev)
    for (s, n), w in want.items():
        g = got.get((s, n), "absent")
        if g != w or isinstance(g, bool) or not isinstance(g, (int, float)):
            kind = s.split(".")[-1]
            deps = [f"{rs}.{r}" for r in X.refs(dict(scopes[s]["defs"])[n]) for rs in [X.resolve(scopes, s, r)]]
            raise Violation(f"{s}.{n} = {_val(dict(scopes[s]['defs'])[n])!r} evaluated to {g!r}, expected {w} "
                            f"(depends on {deps}); definitions {text}", key=f"wrong-value:{kind}")
    # nothing may appear in a scope that was not written there (inner scopes must not leak outwards / sideways)
    for (s, n), g in got.items():
        if (s, n) in want:
            continue
        if s.endswith(".fields"):
            if g != DEFAULTS.get(n, "?"):
                raise Violation(f"{s}.{n} was not set but is {g!r} after evaluation; definitions {text}", key="unset-field-changed")
        else:
            raise Violation(f"{s} gained the key {n} = {g!r} that was never defined there; definitions {text}", key="scope-leak")


N = {"quick": 600, "thorough": 6000}
NSHARDS = 6


def shards(tier, seed):
    return [{"k": k, "n": N[tier] // NSHARDS, "seed": seed} for k in range(NSHARDS)]


def run_shard(shard, col):
    drive(cases(), check, n=shard["n"], seed=hash32(shard["seed"], "C21", shard["k"]), col=col)


def replay(desc, col):
    check(desc, col)


MUTANTS = [
    {"what": "_get_parsable_field_order: dependency regex without the \\b word boundaries (substring names become dependencies)",
     "caught": True, "how": "crash:EvaluationError (spurious circular dependency on acyclic definitions)"},
    {"what": "_eval_expressions_final: symbol_table[field] = value (the unevaluated expression is published)", "caught": True,
     "how": "wrong-value:spec/arch/extras, crash:EvaluationError"},
    {"what": "EvalableModel._eval_expressions: symbol table not copied (inner scope written back into the outer/sibling scope)",
     "caught": True, "how": "wrong-value:extras/fields (sibling component sees the other component's names)"},
    {"what": "_get_parsable_field_order: cycle branch picks to_sort[0] instead of raising", "caught": True,
     "how": "cycle-produced-value (needs the cycle's names to be defined in an outer scope too)"},
    {"what": "Arch PostCallArch: arch variables only added when the name is not already a spec variable (no shadowing)",
     "caught": True, "how": "wrong-value:extras/fields"},
    {"what": "_get_parsable_field_order: dependency edges reversed", "caught": True, "how": "crash:EvaluationError, wrong-value:fields"},
    {"what": "Component._eval_expressions: extra_attributes_for_component_model not exported to the component's fields",
     "caught": True, "how": "crash:EvaluationError, wrong-value:fields"},
]

REGISTER = True
MANIFEST = {
    "level_text": "Randomised exploration (Hypothesis, 600 / 6000 specs per run): random acyclic and cyclic definition graphs over four nested scope kinds are evaluated by Spec._spec_eval_expressions() and every value is compared with a 60-line reference evaluator; a cycle must raise EvaluationError. Not a proof: graphs up to 14 definitions, integer arithmetic only.",
    "level_note": "Trusted: vf/ref/exprs.py (scope chain current object > outer objects > spec variables, written from docs/source/guide/parsing/evaluation.rst). Excluded by construction: self-references, references to a component's unset typed fields, list-index and dotted references. calculate_component_costs() is not exercised (would need component models). 7/7 mutants caught.",
    "technique": "property-based testing against a reference evaluator with a scope chain",
}
