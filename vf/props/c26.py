"""C26 — component totals count every instance of the component.

Descriptor: {"tree": <vf/ref/archtree.py descriptor with "area"/"leak" on components and "fan" lists>}
"""

from hypothesis import strategies as st

from vf.core import Violation, close, drive, must, hash32
from vf.gen.archtree import trees, build_spec
from vf.ref import archtree as R

PROPERTY = "C26"
LEVEL = "exploration"
RULE = (
    "Hypothesis-generated architecture trees (same generator as C25 without leaves after a chain's last compute; "
    "fanouts 1-4 in 1-2 dimensions on Memories, Tolls, Containers and Computes at any position; exact-binary "
    "areas and leak powers; all scale factors 1). After Spec.calculate_component_costs() every component's "
    "total_area / total_leak_power (Arch.per_component_total_*) is compared with per-instance value x instances, "
    "instances = own fanout x fanouts of the non-compute leaves above it on its path (vf/ref/archtree.py), and "
    "Arch.total_* with the sums. Non-trivial: some component has own fanout > 1, or is preceded by a side compute "
    "with fanout > 1, or sits inside a Fork. Distinct = distinct tree."
)
ASSUMPTIONS = [
    "a spatial fanout on a node duplicates the node itself and everything below it (architecture.rst, "
    "'Spatial Fanouts': 'LocalBuffer has a size-4 fanout, meaning that there are 4 instances of the component')",
    "a Compute in a chain is a side branch: its fanout multiplies only itself",
    "every chain ends with its Compute (components on no compute path are not generated)",
    "Array and Network nodes are not generated",
]
TOLERANCE = "rel 1e-9 (all values are exact binary fractions)"

KEY_OWN = "total:own-fanout-not-counted"
KEY_SIDE = "total:side-compute-fanout-counted"


@st.composite
def cases(draw):
    return {"tree": draw(trees(costs="plain", trailing=False))}


def _leaves(tree):
    out = {}

    def rec(nodes):
        for n in nodes:
            if n["t"] in R.BRANCH:
                rec(n["nodes"])
            else:
                out[n["name"]] = n

    rec(tree["nodes"])
    return out


def check(desc, col):
    from vf.props.c25 import _brief

    tree = desc["tree"]
    w = R.walk(tree)
    inst = R.instances(tree)
    leaves = _leaves(tree)
    comps = [x for x in w["order"] if w["kind"][x] != "Container"]

    def prod(names):
        p = 1
        for a in names:
            p *= w["fan"][a]
        return p

    labels = [f"components:{min(len(comps), 8)}", f"computes:{len(w['computes'])}"]
    nontrivial = False
    for x in comps:
        own = w["fan"][x] > 1
        side = prod(w["side_before"][x]) > 1
        fork = w["in_fork"][x]
        if own:
            labels.append("component-with-own-fanout>1")
            if w["kind"][x] == "Compute":
                labels.append("compute-with-own-fanout>1")
        if side:
            labels.append("side-compute-with-fanout-before-component")
        if fork:
            labels.append("component-inside-fork")
        if fork and (own or prod(w["above"][x]) > 1):
            labels.append("component-inside-fork-with-fanout-on-path")
        if any(w["kind"][a] == "Container" for a in w["above"][x]):
            labels.append("container-above-component")
        if len(leaves[x].get("fan", [])) == 2:
            labels.append("two-dimensional-own-fanout")
        nontrivial = nontrivial or own or side or fork
    labels = sorted(set(labels))
    col.case(tree, nontrivial, labels, sample={"tree": _brief(tree), "instances": {x: inst[x] for x in comps}})

    spec = must(build_spec, tree, what="Spec(arch=Arch(...))")
    s2 = must(spec.calculate_component_costs, what="Spec.calculate_component_costs")
    got_tot = {"area": must(lambda: dict(s2.arch.per_component_total_area), what="Arch.per_component_total_area"),
               "leak": must(lambda: dict(s2.arch.per_component_total_leak_power), what="Arch.per_component_total_leak_power")}
    if sorted(got_tot["area"]) != sorted(comps) or sorted(got_tot["leak"]) != sorted(comps):
        raise Violation(f"per_component_total_* lists {sorted(got_tot['area'])}, components are {sorted(comps)}",
                        key="component-set")

    unexplained, own_only, side_only, both = [], [], [], []
    for q, field in (("area", "area"), ("leak", "leak_power")):
        for x in comps:
            node = s2.arch.find(x)
            per = getattr(node, field)
            base = leaves[x][q]
            if per is None or not close(float(per), base, rel=1e-9):
                raise Violation(f"{x}.{field} = {per} after calculate_component_costs, the specified per-instance "
                                f"value is {base} (all scales are 1)", key="per-instance-value")
            O, P, S = w["fan"][x], prod(w["above"][x]), prod(w["side_before"][x])
            want = base * O * P
            got = float(got_tot[q][x])
            attr = getattr(node, "total_" + field)
            if attr is None or not close(float(attr), got, rel=1e-9):
                raise Violation(f"{x}.total_{field} = {attr} but Arch.per_component_total says {got}", key="total-attr")
            if close(got, want, rel=1e-9):
                continue
            msg = (f"total {q} of {w['kind'][x]} {x}: got {got:g}, expected {want:g} = per-instance {base:g} x "
                   f"{O * P} instances (own fanout {O} x fanouts above {[(a, w['fan'][a]) for a in w['above'][x] if w['fan'][a] > 1]}); "
                   f"side computes before it {[(a, w['fan'][a]) for a in w['side_before'][x] if w['fan'][a] > 1]}; "
                   f"tree={_brief(tree)}")
            if O > 1 and close(got, base * P, rel=1e-9):
                own_only.append(msg + "  [= per-instance x fanouts above: own fanout not counted]")
            elif S > 1 and close(got, base * O * P * S, rel=1e-9):
                side_only.append(msg + "  [= expected x fanout of the side computes before it]")
            elif close(got, base * P * S, rel=1e-9):
                both.append(msg + "  [own fanout not counted AND side computes' fanout counted]")
            else:
                unexplained.append(msg)
    # One key per case.  Mismatches that neither known root cause explains come first; then the rarer
    # diagnosis (a side compute's fanout leaking into a component that has no own fanout); keys listed as
    # open known findings are reported only if nothing else is wrong with the case, so that a second root
    # cause is not hidden behind a known one.  (Pure function of the descriptor and col.known_keys.)
    cands = [("total:mismatch", unexplained), (KEY_SIDE, side_only), (KEY_OWN, own_only), (KEY_OWN, both)]
    cands = [(k, m) for k, m in cands if m]
    for k, m in sorted(cands, key=lambda km: km[0] in col.known_keys):
        raise Violation(m[0], key=k)

    for q, prop_name in (("area", "total_area"), ("leak", "total_leak_power")):
        want = sum(leaves[x][q] * inst[x] for x in comps)
        got = float(must(lambda: getattr(s2.arch, prop_name), what="Arch." + prop_name))
        if not close(got, want, rel=1e-9):
            raise Violation(f"Arch.{prop_name} = {got:g}, sum over components of per-instance x instances = {want:g}",
                            key="arch-total")


N = {"quick": 900, "thorough": 9000}
NSHARDS = {"quick": 6, "thorough": 16}


def shards(tier, seed):
    return [{"k": k, "n": N[tier] // NSHARDS[tier], "seed": seed} for k in range(NSHARDS[tier])]


def run_shard(shard, col):
    drive(cases(), check, n=shard["n"], seed=hash32(shard["seed"], "C26", shard["k"]), col=col)


def replay(desc, col):
    check(desc, col)


# Scratch worktree = HEAD + regress/C26/suggested_fix.diff; quick tier, seed 1; all caught (exit 1).
MUTANTS = [
    {"what": "spec.calculate_component_costs: own fanout dropped (= the unchanged tree's first defect)", "caught": True,
     "keys": ["total:own-fanout-not-counted"]},
    {"what": "spec.calculate_component_costs: preceding Compute nodes counted as parents (= the second defect)",
     "caught": True, "keys": ["total:side-compute-fanout-counted"]},
    {"what": "spec.calculate_component_costs: total_leak_power = leak_power (no fanout)", "caught": True,
     "keys": ["total:mismatch", "total:own-fanout-not-counted"]},
    {"what": "spec.calculate_component_costs: only Component parents counted (Containers ignored)", "caught": True,
     "keys": ["total:mismatch", "total:own-fanout-not-counted"]},
    {"what": "structure.iterate_hierarchically: a Fork no longer copies the parent list (fork nodes become parents of "
             "the main chain)", "caught": True, "keys": ["total:mismatch", "total:side-compute-fanout-counted"]},
    {"what": "structure.iterate_hierarchically: nested Hierarchical gets a private parent list (its nodes are no "
             "longer parents of what follows)", "caught": True, "keys": ["total:mismatch", "total:own-fanout-not-counted"]},
    {"what": "spatialable.get_fanout: first dimension only instead of the product", "caught": True,
     "keys": ["total:mismatch", "total:own-fanout-not-counted"]},
]

REGISTER = True
MANIFEST = {
    "level_text": "Random exploration: Hypothesis-generated architecture trees with fanouts on components, "
                  "containers and computes at any position (incl. side computes, Forks, nested hierarchies); every "
                  "component's total area / leak power and the architecture totals are compared with per-instance "
                  "value x instance count from an independent one-pass model. Nothing is claimed beyond the sampled "
                  "trees.",
    "level_note": "Trusted: vf/ref/archtree.py; reading of 'instances' taken from architecture.rst (a fanout "
                  "duplicates the node and everything below it; a Compute in a chain is a side branch). All scale "
                  "factors are 1 here (scales are C27's subject).",
    "technique": "property-based testing (Hypothesis) against a reference model",
}
