"""C18 — relaxing the mapspace never makes the optimum worse."""

import copy

from hypothesis import strategies as st

from vf.core import Violation, hash32
from vf.gen import metamorph as MM
from vf.gen import spec as G

PROPERTY = "C18"
LEVEL = "exploration"
TOLERANCE = "rel 1e-5 (mapper computes in float32)"
RULE = (
    "Hypothesis-generated (strict spec, single relaxation) pairs; the relaxation kinds are dealt evenly over the cases and "
    "the strict spec is built so that the relaxed quantity is present: size (a buffer of a few values -> twice the value "
    "count or inf), may_keep (GLB may_keep Inputs/Outputs/~Inputs/~Outputs -> All), keep (GLB keep Outputs/Inputs/All -> "
    "Nothing, or '~Main | X' -> '~Main'), loop_bounds (one entry of a PE array's loop_bounds deleted; min_usage 0), "
    "min_usage (PE array min_usage 1/0.75/0.5 -> a lower value), max_fused_loops (0 or 1 -> a larger value or inf; "
    "2-Einsum fusable workloads), max_fused_loops_per_rank_variable (1 -> 2), imperfect_temporal / imperfect_spatial "
    "(explore_imperfect_* False -> True; rank bounds 3/5/7). Specs: 1-2 Einsums, Main+GLB(+PE array of 2-4 | +Reg), rank "
    "bounds <= 7, finite throughputs, non-integral capacities, cost patterns chosen so that the relaxed resource matters "
    "(slow dear Main over fast cheap buffers for memory kinds, slow MAC under fast memories for PE-array kinds). Metrics "
    "ENERGY, LATENCY, EDP (PE-array kinds mostly LATENCY/EDP). Both specs are mapped; oracle: relaxed optimum <= strict "
    "optimum * (1+1e-5), and a feasible strict spec must stay feasible. Strict infeasible => trivial. Non-trivial: both "
    "feasible. The labels '<kind>:binding' count pairs where the optimum strictly improved. Distinct = distinct (spec, "
    "relaxation, metrics)."
)
ASSUMPTIONS = [
    "min_usage is 0 in every pair that relaxes something else: FFM's documented fallback (return the highest-usage mappings when none reaches min_usage) makes the valid set depend non-monotonically on the other constraints",
    "capacities are 'n values + half a value' (exact fits hit the known float32 finding C08 lost-pareto-point:template-has-exact-fit); size x2 doubles the value count and re-adds the half value",
]

KINDS = ["size", "may_keep", "keep", "loop_bounds", "min_usage", "max_fused_loops", "per_rank_fused",
         "imperfect_temporal", "imperfect_spatial"]
METRICS = ["ENERGY", "LATENCY", "ENERGY_DELAY_PRODUCT"]
SPATIAL_METRICS = ["LATENCY", "ENERGY_DELAY_PRODUCT", "LATENCY", "ENERGY"]
OBJ = {"ENERGY": "energy", "LATENCY": "latency", "ENERGY_DELAY_PRODUCT": "edp"}
ODD_POOL = [2, 3, 3, 5, 5, 7, 4, 6]


def _bits(spec):
    return list(spec["bits"].values())[0]


def _half(bits):
    return max(1, bits // 2)


def _node(spec, name):
    return [n for n in spec["nodes"] if n["name"] == name][0]


def _add_pes(spec, fanout, loop_bounds=None, min_usage=0):
    sp = {"name": "X", "fanout": fanout}
    if loop_bounds:
        sp["loop_bounds"] = loop_bounds
    if min_usage:
        sp["min_usage"] = min_usage
    spec["nodes"].insert(len(spec["nodes"]) - 1, {"type": "Container", "name": "PEs", "spatial": [sp]})


@st.composite
def cases(draw, slot):
    kind = slot["kind"]
    metrics = slot["metrics"]
    if kind in ("max_fused_loops", "per_rank_fused"):
        spec = draw(MM.small_specs(shapes=("chain2", "chain2", "elementwise2"), three_level_single=False,
                                   tight=draw(st.sampled_from(["very", "very", True])), dear_main=draw(st.sampled_from(["glb_good", "glb_good", None]))))
        main, glb = _node(spec, "Main"), _node(spec, "GLB")
        if main["keep"] == "All":           # make fusion possible
            main["keep"] = "~Intermediates"
            glb["keep"] = "~Main" if glb["keep"] == "Nothing" else f"~Main | ({glb['keep']})"
            glb["may_keep"] = "All"
        if kind == "max_fused_loops":
            lo, hi = draw(st.sampled_from([(0, 1), (0, "inf"), (1, "inf"), (0, 2), (1, 2)]))
            spec["mapper"] = {"max_fused_loops": lo}
            relax = {"kind": kind, "knob": "max_fused_loops", "to": hi}
        else:
            spec["mapper"] = {"max_fused_loops_per_rank_variable": 1}
            relax = {"kind": kind, "knob": "max_fused_loops_per_rank_variable", "to": 2}
    elif kind in ("loop_bounds", "min_usage", "imperfect_spatial"):
        pool = ODD_POOL if kind == "imperfect_spatial" else None
        spec = draw(MM.small_specs(shapes=("matmul", "matmul", "matvec", "elementwise2", "chain2"),
                                   three_level_single=False, bound_pool=pool,
                                   dear_main=("compute_bound" if kind == "min_usage" else
                                              draw(st.sampled_from(["compute_bound", "compute_bound", None])))))
        rvs = sorted(spec["bounds"])
        fanout = draw(st.sampled_from([2, 3, 4, 4]))
        if kind == "loop_bounds":
            n = draw(st.integers(1, 2)) if len(rvs) >= 2 else 1
            # distinct rank variables per entry (two entries on one loop only make accelforge warn about conflicts)
            exprs = draw(st.lists(st.sampled_from(rvs), min_size=n, max_size=n, unique=True)) if n == 2 else \
                [draw(st.sampled_from(rvs + ["All"]))]
            lbs = [{"expression": e, "operator": draw(st.sampled_from(["<=", "<=", "=="])),
                    "value": draw(st.sampled_from([1, 1, 2]))} for e in exprs]
            _add_pes(spec, fanout, lbs)
            relax = {"kind": kind, "index": draw(st.integers(0, n - 1))}
        elif kind == "min_usage":
            hi, lo = draw(st.sampled_from([(1, 0.5), (1, 0), (0.75, 0.5), (0.5, 0), (1, 0.75), (0.75, 0.25), (1, 0.25), (0.5, 0.25)]))
            lbs = None
            if draw(st.integers(0, 2)) == 0:
                lbs = [{"expression": draw(st.sampled_from(rvs)), "operator": "<=", "value": 1}]
            _add_pes(spec, fanout, lbs, hi)
            relax = {"kind": kind, "to": lo}
        else:
            _add_pes(spec, fanout)
            relax = {"kind": kind, "knob": "explore_imperfect_spatial_loops", "to": True}
    elif kind == "imperfect_temporal" and (slot.get("targeted") or draw(st.integers(0, 2))):
        # targeted: one rank with a composite bound >= 12 and a cheap GLB whose capacity is swept between the tile
        # footprints, so that a large proper divisor (6 of 12, 8 of 16, ...) is often the optimal tile: the imperfect
        # mapspace must still contain it
        shape = draw(st.sampled_from(["matmul", "matmul", "matvec"]))
        es, rvs = G.matmul_ab() if shape == "matmul" else G.matvec()
        bigrv = draw(st.sampled_from(rvs))
        bounds = {rv: draw(st.sampled_from([12, 12, 14, 16, 18, 20, 24] if rv == bigrv else [2, 3, 4, 4, 6, 12])) for rv in rvs}
        bits = draw(st.sampled_from([4, 8]))
        big = max(G.tensor_sizes({"einsums": es, "bounds": bounds}).values())
        vals = draw(st.integers(6, max(8, big)))
        if draw(st.integers(0, 3)):
            # capacity just above the footprint of a tile that takes a large proper divisor of the big rank
            O = bounds[bigrv]
            d = draw(st.sampled_from([x for x in range(O // 3 + 1, O) if O % x == 0]))
            other = draw(st.sampled_from([bounds[rv] for rv in rvs if rv != bigrv] + [1]))
            vals = d * other + draw(st.integers(1, 2 + max(bounds.values())))
        dear = draw(st.sampled_from([20, 50, 100]))
        spec = {"shape": shape, "einsums": es, "bounds": bounds, "bits": {"All": bits}, "n_instances": 1, "mapper": {},
                "nodes": [{"type": "Memory", "name": "Main", "size": "inf", "keep": "All", "may_keep": "All",
                           "read": [dear, draw(st.sampled_from(["inf", 1, 4]))], "write": [dear, draw(st.sampled_from(["inf", 1, 4]))], "leak": 0},
                          {"type": "Memory", "name": "GLB", "size": vals * bits + _half(bits), "keep": "Nothing", "may_keep": "All",
                           "read": [1, draw(st.sampled_from(["inf", 4, 16]))], "write": [1, draw(st.sampled_from(["inf", 4, 16]))], "leak": 0},
                          {"type": "Compute", "name": "MAC", "compute": [1, draw(st.sampled_from([1, 2]))], "leak": 0}]}
        relax = {"kind": kind, "knob": "explore_imperfect_temporal_loops", "to": True}
    elif kind == "imperfect_temporal":
        # primes (imperfect tiles are the only proper tiles) and composites >= 12 (the imperfect enumeration has
        # plateaus in ceil(bound / tile) there, and must still contain every perfect divisor)
        spec = draw(MM.small_specs(shapes=("matmul", "matmul", "matvec", "elementwise2"),
                                   bound_pool=draw(st.sampled_from([[3, 5, 5, 7, 7], [4, 12, 12, 16, 18, 20], [3, 5, 12, 14, 16, 24]])),
                                   max_ops=1600, three_level_single=False, tight=draw(st.sampled_from(["very", True])),
                                   dear_main=draw(st.sampled_from(["glb_good", "glb_good", None]))))
        relax = {"kind": kind, "knob": "explore_imperfect_temporal_loops", "to": True}
    else:
        spec = draw(MM.small_specs(tight=("very" if kind == "size" else False),
                                   dear_main=draw(st.sampled_from(["glb_good", "glb_good", None]))))
        bits = _bits(spec)
        sizes = G.tensor_sizes(spec)
        tot, big = sum(sizes.values()), max(sizes.values())
        glb = _node(spec, "GLB")
        if kind == "size":
            target = draw(st.sampled_from([n["name"] for n in spec["nodes"] if n["type"] == "Memory" and n["name"] != "Main"]))
            relax = {"kind": kind, "node": target, "to": draw(st.sampled_from(["x2", "x2", "inf"]))}
        elif kind == "may_keep":
            main = _node(spec, "Main")
            main["keep"] = "All"
            glb["keep"] = "Nothing"
            glb["may_keep"] = draw(st.sampled_from(["Inputs", "Outputs", "~Inputs", "~Outputs"]))
            relax = {"kind": kind, "node": "GLB", "to": "All"}
        else:
            main = _node(spec, "Main")
            forced = draw(st.sampled_from(["Outputs", "Inputs", "All", "Outputs"]))
            glb["may_keep"] = "All"
            if glb["size"] != "inf":
                glb["size"] = draw(st.sampled_from([big, tot, tot * 2])) * bits + _half(bits)
            if main["keep"] == "All":
                glb["keep"] = forced
                relax = {"kind": kind, "node": "GLB", "to": "Nothing"}
            else:
                glb["keep"] = f"~Main | ({forced})"
                relax = {"kind": kind, "node": "GLB", "to": "~Main"}
    if slot.get("targeted"):
        spec["family"] = "imperfect-targeted"
    return {"spec": spec, "relax": relax, "metrics": metrics}


def relaxed(spec, relax):
    d = copy.deepcopy(spec)
    kind = relax["kind"]
    if kind == "size":
        node = _node(d, relax["node"])
        if relax["to"] == "inf":
            node["size"] = "inf"
        else:
            bits = _bits(d)
            vals = (node["size"] - _half(bits)) // bits
            node["size"] = 2 * vals * bits + _half(bits)
    elif kind == "may_keep":
        _node(d, relax["node"])["may_keep"] = relax["to"]
    elif kind == "keep":
        _node(d, relax["node"])["keep"] = relax["to"]
    elif kind == "loop_bounds":
        sp = _node(d, "PEs")["spatial"][0]
        sp["loop_bounds"] = [lb for i, lb in enumerate(sp["loop_bounds"]) if i != relax["index"]]
    elif kind == "min_usage":
        _node(d, "PEs")["spatial"][0]["min_usage"] = relax["to"]
    else:
        d["mapper"] = dict(d.get("mapper") or {})
        d["mapper"][relax["knob"]] = relax["to"]
    return d


def check(desc, col):
    spec, relax, metrics = desc["spec"], desc["relax"], desc["metrics"]
    kind = relax["kind"]
    spec2 = relaxed(spec, relax)
    a = MM.run(spec, metrics=metrics, what="strict run")
    b = MM.run(spec2, metrics=metrics, what=f"relaxed run ({kind})")
    obj = OBJ[metrics]
    labels = MM.shape_labels(spec) + [f"relax:{kind}", f"metrics:{metrics}"] + (["family:imperfect-targeted"] if spec.get("family") else [])
    samp = {"shape": spec["shape"], "bounds": spec["bounds"], "relax": relax, "metrics": metrics,
            "strict_mapper": spec.get("mapper")}
    if not a.feasible:
        labels.append(f"{kind}:strict-infeasible" + ("->feasible" if b.feasible else ""))
        col.case([spec, relax, metrics], False, labels, sample=samp)
        return
    x = a.best(obj)
    y = b.best(obj) if b.feasible else float("inf")
    binding = y < x * (1 - 1e-5)
    labels.append(f"{kind}:{'binding' if binding else 'not-binding'}")
    labels.append("binding" if binding else "not-binding")
    samp.update(strict_opt=x, relaxed_opt=G.enc(y))
    col.case([spec, relax, metrics], b.feasible, labels, sample=samp)
    if not b.feasible:
        raise Violation(f"relaxation {relax} made a feasible spec (optimum {obj}={x!r}) infeasible: {b.why}",
                        key=f"{kind}:relaxed-infeasible")
    if y > x * (1 + 1e-5):
        ia, ib = a.argbest(obj), b.argbest(obj)
        raise Violation(
            f"relaxation {relax} metrics={metrics}: optimum got worse, strict {obj}={x!r} -> relaxed {y!r} "
            f"(+{(y / x - 1) * 100:.3g}%)\n strict optimum : {a.canon(ia)}\n relaxed optimum: {b.canon(ib)}",
            key=f"{kind}:optimum-worse")


N = {"quick": 36, "thorough": 450}
N_TARGETED = {"quick": 64, "thorough": 480}


def shards(tier, seed):
    # deterministic, even spread of the relaxation kinds
    nk = len(KINDS)
    slots = []
    for i in range(N[tier]):
        kind = KINDS[(i + seed) % nk]
        # a PE array changes latency first: spatial kinds are mapped for LATENCY / EDP three times out of four
        pool = SPATIAL_METRICS if kind in ("loop_bounds", "min_usage", "imperfect_spatial") else METRICS
        slots.append({"kind": kind, "metrics": pool[(i // nk + i % nk) % len(pool)]})
    # extra cheap slots for the targeted imperfect-temporal family (a lost tile candidate only shows when that very
    # tile is the optimum: ~5 % of these specs expose such a loss, measured on a seeded change)
    for i in range(N_TARGETED[tier]):
        slots.append({"kind": "imperfect_temporal", "metrics": METRICS[i % 2 * 2], "targeted": True})
    return MM.deal(slots, tier, seed)


def run_shard(shard, col):
    MM.run_slots(shard, col, "C18", cases, check)


def replay(desc, col):
    check(desc, col)


REGISTER = True
QUICK_BUDGET_S = 600
THOROUGH_BUDGET_S = 3000
MUTANTS = [
    {"what": "make_storages: only the first two optional (may_keep) tensors are considered for keeping", "caught": True, "how": "keep:optimum-worse"},
    {"what": "make_storages: an empty keep set falls back to may_keep (`keep or may_keep`)", "caught": True, "how": "keep:optimum-worse, may_keep:optimum-worse, mapper-crash:ValueError"},
    {"what": "make_tile_shapes: fused-loop limit comparison swapped (n >= limit)", "caught": True, "how": "max_fused_loops:optimum-worse"},
    {"what": "make_pmappings: a memory is dropped from capacity tracking when the tensors fit within 2x its size", "caught": True, "how": "mapper-crash:InvalidMappingError (over-capacity mapping returned after a size relaxation)"},
    {"what": "make_tile_shapes: min_value check inverted (result <= min_value), i.e. min_usage acts as a maximum", "caught": True, "how": "min_usage:optimum-worse"},
    {"what": "make_tile_shapes.get_possible_factor_sizes: imperfect tile sizes start at twice the inner tile (unit tile dropped)", "caught": True, "how": "mapper-crash:ValueError"},
    {"what": "constraints.MinUsage.__call__ comparison inverted; make_tile_shapes._factorize_imperfect drops 1 and n", "caught": False,
     "note": "both are dead code (min_usage is enforced by an Objective in make_tile_shapes; _factorize_imperfect has no caller): relaxed == strict under the mutants in direct probes, so they are equivalent mutants; replaced by the two live-path mutants above"},
]
MANIFEST = {
    "level_text": "Metamorphic testing of map_workload_to_arch (plus extra slots of a targeted imperfect-factorisation family with composite rank bounds >= 12): a generated strict spec and the same spec with one relaxation (larger memory, larger may_keep, smaller keep, deleted loop bound, lower min_usage, higher fused-loop limits, imperfect factorisation enabled) are both mapped under ENERGY, LATENCY or EDP; the relaxed optimum must not exceed the strict one and feasibility must not be lost. No counterexample in N pairs; not a proof.",
    "level_note": "1-2 Einsums, rank bounds <= 7, 2-3 memory levels or a 2-4 wide PE array, non-integral capacities; min_usage > 0 only in min_usage pairs (documented FFM fallback). rel 1e-5.",
    "technique": "property-based metamorphic testing of the mapper (Hypothesis)",
}
