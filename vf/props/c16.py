"""C16 — tolerance settings stay within their documented optimality bound."""

from hypothesis import strategies as st

from vf import instrument as I
from vf.core import Violation, hash32
from vf.gen import metamorph as MM

PROPERTY = "C16"
LEVEL = "exploration"
TOLERANCE = "rel 1e-5 on both sides of the bound; usage <= 1 + 1e-6"
RULE = (
    "Hypothesis-generated (small spec, tolerance setting) pairs; every energy (and leak power) is multiplied by a unit "
    "factor from {1, 1e-12, 1e-9, 1e-3, 1e4} and every throughput by one from {1, 1e3, 1e9} (objective values from ~1e-13 to "
    "~1e9: the bound is relative); specs: one Einsum (matmul/matvec, rank bounds from "
    "{4,6,8,12}, 2-3 memory levels) or two (2-matmul chain / 2 elementwise ops, bounds <= 6, 2 levels), finite throughputs, "
    "leak, every memory below Main finite and smaller than the tensors together; metrics ENERGY / LATENCY / EDP / ENERGY|LATENCY (half of the cases: two-objective fronts are where rounding drops rows). The "
    "tolerance run's tile-shape prune threshold (literal 1000) is drawn from {1000, 8, 1} (DESIGN 4.6). Settings: "
    "objective_tolerance t in {0.01, 0.1, 0.5} alone, resource_usage_tolerance r in {0.01, 0.1, 0.5} alone, and both "
    "together. The spec is mapped exactly (both 0) and with the setting. Oracle: (t alone) the tolerance run is feasible "
    "when the exact run is and opt0*(1-1e-5) <= best_t <= opt0*(1+t)*(1+1e-5) for every optimised objective (both front minima for ENERGY|LATENCY); (any r > 0) every returned mapping is valid: "
    "the detailed evaluation does not raise InvalidMappingError and every reported memory usage is <= 1, and no returned "
    "mapping beats the exact optimum; (r alone, exact optimum using < 1-r of every memory) the optimum is still returned. Non-trivial: exact run feasible and the tolerance run returned a different mapping, "
    "a different objective value or a different number of rows ('different' label), or there was something it could have changed: the exact front has >= 2 rows, or with r > 0 the exact optimum is fuller than 1-r; pairs where it returned the same mapping are labelled "
    "'same-mapping'. Distinct = distinct (spec, setting, metrics)."
)
ASSUMPTIONS = [
    "with resource_usage_tolerance > 0 the documentation promises validity only (mappings near full usage may be dropped), so the (1+t) upper bound is checked only when resource_usage_tolerance == 0",
    "validity predicate = accelforge's own detailed model (evaluate_mapping recomputes usage from the mapping and raises when a memory overflows) plus reported usage <= 1; it is independent of the mapper's rounded bookkeeping but not of the model (C06 covers the model's usage)",
]

TOLS = [0.01, 0.1, 0.5]
# two-objective fronts are where rounding drops something on small specs, so ENERGY|LATENCY gets half the slots
METRICS = ["ENERGY", "ENERGY|LATENCY", "ENERGY_DELAY_PRODUCT", "ENERGY|LATENCY", "LATENCY", "ENERGY|LATENCY"]
OBJ = {"ENERGY": "energy", "LATENCY": "latency", "ENERGY_DELAY_PRODUCT": "edp"}


@st.composite
def cases(draw, slot):
    mode, metrics = slot["mode"], slot["metrics"]
    pick = draw(st.integers(0, 3))
    if pick < 2:
        # one Einsum with many divisors per rank: large tile-shape enumerations (cheap to map: ~0.5 s)
        spec = draw(MM.small_specs(shapes=("matmul", "matmul", "matvec"), bound_pool=[4, 6, 8, 12, 12], max_ops=2000, tight=True,
                                   three_level_single=False,
                                   dear_main=("dear_main" if metrics in ("ENERGY|LATENCY", "ENERGY_DELAY_PRODUCT") else None)))
    elif metrics in ("ENERGY|LATENCY", "ENERGY_DELAY_PRODUCT"):
        # energy and latency pull apart: many-point fronts, where rounding has something to drop
        spec = draw(MM.small_specs(shapes=("chain2", "chain2", "matmul", "matvec"), tight=True, dear_main="dear_main",
                                   three_level_single=False))
    else:
        spec = draw(MM.small_specs(shapes=("chain2", "elementwise2", "matmul"), tight=draw(st.sampled_from([True, "very"]))))
    # physical units: the guarantee is relative, so it must hold whatever the unit of energy and time is (joules and
    # seconds give objective values far below 1, which an absolute component in the rounding grid would swamp)
    es = draw(st.sampled_from([1, 1, 1e-12, 1e-9, 1e-3, 1e4]))
    ts = draw(st.sampled_from([1, 1, 1e9, 1e3]))
    if es != 1:
        spec = MM.scale_energy(spec, es)
    if ts != 1:
        spec = MM.scale_throughput(spec, ts)
        for n in spec["nodes"]:
            if "leak" in n:
                n["leak"] = n["leak"] * ts        # keeps leak energy in proportion to dynamic energy
    spec["units"] = [es, ts]
    t = slot["t"] if mode in ("objective", "both") else 0
    r = slot["r"] if mode in ("resource", "both") else 0
    return {"spec": spec, "metrics": metrics, "objective_tolerance": t, "resource_usage_tolerance": r,
            "prune_threshold": draw(st.sampled_from([1000, 8, 1]))}


def check(desc, col):
    spec, metrics = desc["spec"], desc["metrics"]
    t, r = desc["objective_tolerance"], desc["resource_usage_tolerance"]
    objs = ["energy", "latency"] if metrics == "ENERGY|LATENCY" else [OBJ[metrics]]
    mode = "both" if (t and r) else ("objective" if t else "resource")
    a = MM.run(spec, metrics=metrics, what="exact run")
    knobs = {"objective_tolerance": t, "resource_usage_tolerance": r}
    labels = MM.shape_labels(spec) + [f"mode:{mode}", f"metrics:{metrics}"]
    es, ts = spec.get("units", [1, 1])
    labels += [f"energy_unit:{es:g}", f"time_unit:1/{ts:g}"]
    if t:
        labels.append(f"t:{t}")
    if r:
        labels.append(f"r:{r}")
    samp = {"shape": spec["shape"], "bounds": spec["bounds"], "metrics": metrics, **knobs}
    thr = desc.get("prune_threshold", 1000)
    labels.append(f"prune_threshold:{thr}")
    fpr = [spec, metrics, t, r, thr]
    try:
        # DESIGN 4.6: tile-shape exploration only prunes (and only then applies the tolerances) once a partial
        # enumeration holds >= 1000 choices; lowering that literal exercises the path on small specs.  The exact
        # run keeps the shipped value.
        with I.prune_threshold(thr) as active:
            if not active:
                labels.append("prune_threshold:inactive")
            b = MM.run(spec, metrics=metrics, mapper=knobs, what=f"tolerance run {knobs}")
    except Violation as v:
        col.case(fpr, a.feasible, labels + ["tolerance-run-crashed"], sample=samp)
        if "InvalidMappingError" in v.key:
            raise Violation("a mapping returned under " + str(knobs) + " is invalid: " + v.message, key=f"{mode}:invalid-mapping-returned")
        raise
    if not a.feasible:
        col.case(fpr, False, labels + ["exact-infeasible" + ("" if not b.feasible else "->tol-feasible")], sample=samp)
        if b.feasible:
            raise Violation(f"exact run found no mapping ({a.why}) but the run with {knobs} returned {len(b.rows)}",
                            key=f"{mode}:feasible-only-with-tolerance")
        return
    if not b.feasible:
        col.case(fpr, True, labels + ["tol-infeasible"], sample=samp)
        if r == 0:
            raise Violation(f"objective_tolerance={t}: the exact run returned {len(a.rows)} mapping(s) but the tolerance run found none: {b.why}",
                            key="objective:lost-feasibility")
        return      # with r > 0 near-full mappings may be dropped (documented)
    x = {o: a.best(o) for o in objs}
    y = {o: b.best(o) for o in objs}
    ia = {o: a.argbest(o) for o in objs}
    ib = {o: b.argbest(o) for o in objs}
    same_map = all(a.canon(ia[o]) == b.canon(ib[o]) for o in objs)
    changed = any(not MM.same(x[o], y[o]) for o in objs)
    different = (not same_map) or changed or len(a.rows) != len(b.rows)
    labels.append("different" if different else "same-mapping")
    labels.append(f"{mode}:{'different' if different else 'same-mapping'}")
    if changed:
        labels.append(f"{mode}:objective-changed")
    if len(b.rows) < len(a.rows):
        labels.append(f"{mode}:fewer-rows")
    samp.update(exact_opt=x, tol_best=y, n_exact=len(a.rows), n_tol=len(b.rows))
    # non-trivial: the tolerance run changed something, or there was something it could have changed (an exact
    # front with >= 2 points, or with r > 0 an exact optimum fuller than 1 - r that the run may legitimately drop)
    bites = bool(r) and any(max(a.usage[ia[o]].values(), default=0.0) > 1 - r for o in objs)
    if bites:
        labels.append("resource:optimum-above-threshold")
    col.case(fpr, different or len(a.rows) >= 2 or bites, labels, sample=samp)

    # validity of everything returned (the property's claim for r > 0; harmless for r == 0)
    for i, u in enumerate(b.usage):
        for res, frac in u.items():
            if frac > 1 + 1e-6:
                raise Violation(f"{knobs}: returned mapping {i} uses {frac * 100:.4g}% of {res}\n {b.canon(i)}",
                                key=f"{mode}:over-capacity")
    if t == 0 and all(max(a.usage[ia[o]].values(), default=0.0) <= 1 - r - 1e-6 for o in objs):
        # documented guarantee of resource_usage_tolerance: every Pareto-optimal mapping whose usage stays below
        # (1 - r) is still returned, so an exact optimum that far from full must survive
        col.label(f"resource:optimum-below-{1 - r:g}")
        for o in objs:
            if y[o] > x[o] * (1 + 1e-5):
                raise Violation(
                    f"resource_usage_tolerance={r} metrics={metrics}: the exact optimum {o}={x[o]!r} uses at most "
                    f"{max(a.usage[ia[o]].values(), default=0.0):.4g} of every memory (< 1 - r) but the tolerance run's best is {y[o]!r}\n"
                    f" exact: {a.canon(ia[o])}\n tol  : {b.canon(ib[o])}", key="resource:lost-optimum-below-threshold")
    for o in objs:
        if y[o] < x[o] * (1 - 1e-5):
            raise Violation(
                f"{knobs} metrics={metrics}: tolerance run returned {o}={y[o]!r}, below the exact optimum {x[o]!r}\n"
                f" exact: {a.canon(ia[o])}\n tol  : {b.canon(ib[o])}", key=f"{mode}:below-exact-optimum")
        if r == 0 and y[o] > x[o] * (1 + t) * (1 + 1e-5):
            raise Violation(
                f"objective_tolerance={t} metrics={metrics}: best returned {o}={y[o]!r} exceeds (1+t) x exact optimum {x[o]!r} "
                f"(ratio {y[o] / x[o]:.6g} > {1 + t})\n exact: {a.canon(ia[o])}\n tol  : {b.canon(ib[o])}",
                key=f"objective:{metrics}:bound-exceeded")


N = {"quick": 36, "thorough": 480}
MODES = ["objective", "resource", "both"]


def shards(tier, seed):
    slots = [{"mode": MODES[i % 3], "t": TOLS[(i // 3 + i // 18 + seed) % 3], "r": TOLS[(i // 9 + seed) % 3],
              "metrics": METRICS[(i // 3) % len(METRICS)]} for i in range(N[tier])]
    return MM.deal(slots, tier, seed)


def run_shard(shard, col):
    MM.run_slots(shard, col, "C16", cases, check)


def replay(desc, col):
    check(desc, col)


REGISTER = True
QUICK_BUDGET_S = 600
THOROUGH_BUDGET_S = 3000
MUTANTS = [
    {"what": "pareto.logscale_to_tolerance: rounding grid (1+3t) instead of (1+t)", "caught": True, "how": "objective:ENERGY|LATENCY:bound-exceeded"},
    {"what": "join_strategy_2: the final join prunes with 3x objective_tolerance", "caught": True, "how": "objective:ENERGY|LATENCY:bound-exceeded"},
    {"what": "make_tile_shapes._make_evalable_objectives_from_formula: tolerance not reset to 0 for partially evaluated formulas (planned in DESIGN)", "caught": False,
     "note": "changes results under the lowered prune threshold (best/optimum up to 1.35 at t=0.5 in 17 direct probes incl. 3-level specs) but never beyond (1+t): not property-breaking on specs of this size"},
    {"what": "multi_strategy_join: oversubscription check after the dirty join relaxed (maxvalue > 2) (planned in DESIGN as 'limit_capacity keeps 1+tolerance on the final join')", "caught": False,
     "note": "no effect in the domain: the dirty join never returned an oversubscribed row on these specs (results identical to the unmutated tree)"},
    {"what": "pareto.makepareto: rounded reservation values written back into the table when resource_usage_tolerance > 0", "caught": False,
     "note": "no effect in 11 direct probes on very tight fused specs (usage 0.8-0.9, r=0.5): rounding never moved a sum across 1.0. The validity half of C16 is weakly exercised at this scale; the resource-mode 'optimum below 1-r is retained' oracle was added after these runs"},
]
MANIFEST = {
    "level_text": "Metamorphic testing of map_workload_to_arch: each generated small spec (energies and throughputs multiplied by physical-unit factors, objective values 1e-13..1e9) is mapped exactly and with objective_tolerance and/or resource_usage_tolerance in {0.01, 0.1, 0.5}; with objective_tolerance alone the best returned objective must lie in [opt, (1+t) opt]; with resource_usage_tolerance every returned mapping must pass the detailed model's capacity check and none may beat the exact optimum. No counterexample in N pairs; not a proof.",
    "level_note": "1-2 Einsums, 2-3 memory levels, rank bounds <= 12 (one Einsum) / 6 (two); metrics ENERGY, LATENCY, EDP; validity via accelforge's detailed model (reported usage <= 1, no InvalidMappingError).",
    "technique": "property-based metamorphic testing of the mapper (Hypothesis)",
}
