"""C01 — the mapper returns a mapping that is optimal over the whole mapspace."""

from vf.core import Violation, close, drive, hash32
from vf.gen import spec as G
from vf.gen import universe as U

PROPERTY = "C01"
LEVEL = "exploration"
TOLERANCE = "rel 1e-5 on the optimal objective (float32 mapper vs float64 model)"
RULE = (
    "Hypothesis-generated tiny single-Einsum specs (matmul/matvec/elementwise/outer; rank bounds with several divisors; "
    "Main + GLB (+ Reg) with explicit keep/may_keep sets, finite non-integral capacities around the tensor sizes, random "
    "energies/throughputs/leak; metric ENERGY, LATENCY or EDP; default mapper knobs). The documented mapspace (vf/ref/"
    "mapspace.py rules R1,R2,R4: any storage subset allowed by keep/may_keep, any storage order within the hierarchy order, "
    "any ordered factorisation of every rank bound over the blocks between storage nodes) is enumerated COMPLETELY per spec "
    "and every member is evaluated with evaluate_mapping; min objective over valid members must equal the best objective "
    "among map_workload_to_arch's results, in both directions. Non-trivial: >= 2 distinct objective values among valid "
    "members and the optimum is not the all-tile-1/no-lower-storage mapping. Distinct = distinct spec descriptor."
)
ASSUMPTIONS = [
    "universe rules R1, R2, R4 of vf/ref/mapspace.py restate the documented mapspace (DESIGN.md 4.3); single-Einsum specs only (no fusion rule R5 yet)",
    "memory capacities are never an exact fit (known finding C08 exact-fit float32)",
    "objective of a universe member = accelforge's own evaluate_mapping (checked against the literal executor by C05/C06)",
]


def check(desc, col):
    metric = desc["mapper"]["metrics"]
    spec = G.build_spec(desc)
    uni, n_total, n_invalid = U.evaluate_universe(desc, col=col)
    if col.over_budget():
        col.case(desc, False, ["budget:universe-incomplete"])
        return
    feasible = bool(uni)
    best_u = min((U.objective(m, metric) for m in uni), default=None)
    distinct_vals = len({round(U.objective(m, metric), 6) for m in uni})
    arg = min(uni, key=lambda m: U.objective(m, metric)) if uni else None
    trivial_opt = arg is not None and sum(1 for n in arg["tree"] if n["k"] == "storage") == 1
    nontrivial = feasible and distinct_vals >= 2 and not trivial_opt
    labels = [f"metric:{metric}", f"levels:{len(desc['levels']) + 1}", f"shape:{desc['shape']}",
              "capacity_binding" if n_invalid else "capacity_free",
              "universe<=500" if n_total <= 500 else "universe>500", "feasible" if feasible else "infeasible"]
    col.case(desc, nontrivial, labels,
             sample={"bounds": desc["bounds"], "levels": desc["levels"], "metric": metric, "universe": n_total,
                     "invalid": n_invalid, "best": best_u, "argbest": U.show(arg["tree"]) if arg else None})
    try:
        m = G.run_mapper(spec)
    except G.Infeasible as e:
        if feasible:
            raise Violation(f"mapper reports no mapping ({e}) but the universe has {len(uni)} valid members, best {best_u}: "
                            f"{U.show(arg['tree'])}", key="mapper-infeasible")
        return
    except Exception as e:  # noqa: BLE001
        import traceback
        raise Violation(f"map_workload_to_arch raised {type(e).__name__}: {str(e)[:300]}\n{traceback.format_exc(limit=6)}",
                        key=f"mapper-crash:{type(e).__name__}")
    df = m.data
    if metric == "ENERGY":
        vals = [float(x) for x in df["Total<SEP>energy"]]
    elif metric == "LATENCY":
        vals = [float(x) for x in df["Total<SEP>latency"]]
    else:
        vals = [float(e) * float(l) for e, l in zip(df["Total<SEP>energy"], df["Total<SEP>latency"])]
    best_m = min(vals)
    if not feasible:
        raise Violation(f"mapper returned a mapping (objective {best_m}) but no member of the universe is valid", key="universe-empty")
    if not close(best_m, best_u, rel=1e-5, abs_=1e-9):
        if best_m > best_u:
            raise Violation(f"mapper optimum {best_m} is worse than the mapspace optimum {best_u} ({metric}); better mapping: "
                            f"{U.show(arg['tree'])} energy={arg['energy']} latency={arg['latency']} usage={arg['usage']}",
                            key="mapper-suboptimal")
        raise Violation(f"mapper reports {best_m}, better than every member of the enumerated mapspace (best {best_u}, {metric})",
                        key="mapper-better-than-universe")


N = {"quick": 32, "thorough": 256}
NSHARDS = 16
QUICK_BUDGET_S = 500
THOROUGH_BUDGET_S = 3000


def shards(tier, seed):
    return [{"k": k, "n": max(1, N[tier] // NSHARDS), "seed": seed, "tier": tier} for k in range(NSHARDS)]


def run_shard(shard, col):
    mu = 1500 if shard["tier"] == "quick" else 6000
    drive(U.tiny_specs(max_universe=mu), check, n=shard["n"], seed=hash32(shard["seed"], "C01", shard["k"]), col=col,
          shrink=False)


def replay(desc, col):
    if "levels" not in desc and "spec" in desc:
        # regression descriptors that are plain G-SPEC specs: the mapper must return something
        spec = G.build_spec(desc["spec"])
        try:
            G.run_mapper(spec)
        except G.Infeasible:
            pass
        except Exception as e:  # noqa: BLE001
            raise Violation(f"map_workload_to_arch raised {type(e).__name__}: {str(e)[:300]}", key=f"mapper-crash:{type(e).__name__}")
        return
    check(desc, col)

REGISTER = True
MUTANTS = [
    {"what": "make_storages.powerset never yields the full may_keep subset", "caught": True, "how": "mapper-infeasible"},
    {"what": "make_loops: 'raise through irrelevant loops' also removes fully-relevant loops", "caught": True, "how": "mapper-suboptimal"},
    {"what": "unfixed tree before 47c9042 (constant-invalid template aborts the run)", "caught": True, "how": "regress/C01 replay"},
]
MANIFEST = {
    "level_text": "For generated tiny single-Einsum specs the documented mapspace is enumerated completely (storage subsets x storage orders x ordered factorisations of every rank bound), every member is evaluated by evaluate_mapping, and the mapper's best objective must equal the universe optimum in both directions (metrics ENERGY, LATENCY, EDP). Complete inside each enumerated universe; the spec family itself is sampled. Not a proof.",
    "level_note": "Trusted: universe rules R1,R2,R4 in vf/ref/mapspace.py (restating the documented mapspace) and evaluate_mapping as the objective (checked by C05/C06). Single-Einsum specs only: fused (multi-Einsum) universes are not enumerated; capacities are never an exact fit (open finding C08).",
    "technique": "property-based testing against an exhaustive brute-force reference (mapspace enumeration)",
}
