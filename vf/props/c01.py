"""C01 — the mapper returns a mapping that is optimal over the whole mapspace."""

from hypothesis import strategies as st

from vf.core import Violation, close, drive, hash32
from vf.gen import spec as G
from vf.gen import universe as U

PROPERTY = "C01"
LEVEL = "exploration"
TOLERANCE = "rel 1e-5 on the optimal objective (float32 mapper vs float64 model)"
RULE = (
    "Hypothesis-generated tiny single-Einsum specs (matmul/matvec/elementwise/outer; rank bounds with several divisors; "
    "Main + GLB (+ Reg) with explicit keep/may_keep sets, finite non-integral capacities around the tensor sizes, random "
    "energies/throughputs/leak; metric ENERGY, LATENCY or EDP; default mapper knobs). The documented mapspace (vf/ref/"
    "mapspace.py rules R1,R2,R4: any storage subset allowed by keep/may_keep, any storage order within the hierarchy order, "
    "any ordered factorisation of every rank bound over the blocks between storage nodes) is enumerated COMPLETELY per spec "
    "and every member is evaluated with evaluate_mapping; min objective over valid members must equal the best objective "
    "among map_workload_to_arch's results, in both directions. Non-trivial: >= 2 distinct objective values among valid "
    "members and the optimum is not the all-tile-1/no-lower-storage mapping. Distinct = distinct spec descriptor."
)
ASSUMPTIONS = [
    "universe rules R1, R2, R4 of vf/ref/mapspace.py restate the documented mapspace (DESIGN.md 4.3); single-Einsum specs only (no fusion rule R5 yet)",
    "memory capacities are never an exact fit (known finding C08 exact-fit float32)",
    "objective of a universe member = accelforge's own evaluate_mapping (checked against the literal executor by C05/C06)",
]


def check(desc, col):
    if desc.get("family") == "fused":
        return check_fused(desc, col)
    metric = desc["mapper"]["metrics"]
    spec = G.build_spec(desc)
    uni, n_total, n_invalid = U.evaluate_universe(desc, col=col)
    if col.over_budget():
        col.case(desc, False, ["budget:universe-incomplete"])
        return
    feasible = bool(uni)
    best_u = min((U.objective(m, metric) for m in uni), default=None)
    distinct_vals = len({round(U.objective(m, metric), 6) for m in uni})
    arg = min(uni, key=lambda m: U.objective(m, metric)) if uni else None
    trivial_opt = arg is not None and sum(1 for n in arg["tree"] if n["k"] == "storage") == 1
    nontrivial = feasible and distinct_vals >= 2 and not trivial_opt
    labels = [f"metric:{metric}", f"levels:{len(desc['levels']) + 1}", f"shape:{desc['shape']}",
              "capacity_binding" if n_invalid else "capacity_free",
              "universe<=500" if n_total <= 500 else "universe>500", "feasible" if feasible else "infeasible"]
    col.case(desc, nontrivial, labels,
             sample={"bounds": desc["bounds"], "levels": desc["levels"], "metric": metric, "universe": n_total,
                     "invalid": n_invalid, "best": best_u, "argbest": U.show(arg["tree"]) if arg else None})
    try:
        m = G.run_mapper(spec)
    except G.Infeasible as e:
        if feasible:
            raise Violation(f"mapper reports no mapping ({e}) but the universe has {len(uni)} valid members, best {best_u}: "
                            f"{U.show(arg['tree'])}", key="mapper-infeasible")
        return
    except Exception as e:  # noqa: BLE001
        import traceback
        raise Violation(f"map_workload_to_arch raised {type(e).__name__}: {str(e)[:300]}\n{traceback.format_exc(limit=6)}",
                        key=f"mapper-crash:{type(e).__name__}")
    df = m.data
    if metric == "ENERGY":
        vals = [float(x) for x in df["Total<SEP>energy"]]
    elif metric == "LATENCY":
        vals = [float(x) for x in df["Total<SEP>latency"]]
    else:
        vals = [float(e) * float(l) for e, l in zip(df["Total<SEP>energy"], df["Total<SEP>latency"])]
    best_m = min(vals)
    if not feasible:
        raise Violation(f"mapper returned a mapping (objective {best_m}) but no member of the universe is valid", key="universe-empty")
    if not close(best_m, best_u, rel=1e-5, abs_=1e-9):
        if best_m > best_u:
            raise Violation(f"mapper optimum {best_m} is worse than the mapspace optimum {best_u} ({metric}); better mapping: "
                            f"{U.show(arg['tree'])} energy={arg['energy']} latency={arg['latency']} usage={arg['usage']}",
                            key="mapper-suboptimal")
        raise Violation(f"mapper reports {best_m}, better than every member of the enumerated mapspace (best {best_u}, {metric})",
                        key="mapper-better-than-universe")


# ---------------------------------------------------------------------------------------------------------
# fused two-Einsum family: a sound one-directional check against a SUB-universe of valid fused mappings
# ---------------------------------------------------------------------------------------------------------

@st.composite
def fused_specs(draw):
    kind = draw(st.sampled_from(["chain2", "chain2", "elementwise2"]))
    es, rvs = G.chain(2) if kind == "chain2" else G.elementwise(2)
    inter_vars = {"chain2": ("m", "n1"), "elementwise2": ("m", "n")}[kind]
    bounds = {rv: draw(st.sampled_from([3, 4, 4, 6] if rv in inter_vars else [2, 2, 3, 4])) for rv in rvs}
    bits = 8
    wl = {"einsums": es, "bounds": bounds}
    sizes = G.tensor_sizes(wl)
    tot, big = sum(sizes.values()), max(sizes.values())
    t_inter = bounds[inter_vars[0]] * bounds[inter_vars[1]]
    lo = min(bounds[v] for v in inter_vars)
    # GLB capacities: mostly so small that not even a one-dimensional slice of the intermediate fits next to the
    # other tiles (the fused optimum then tiles the intermediate along two rank variables), sometimes larger
    vals = draw(st.one_of(st.integers(3, lo + 3), st.integers(3, lo + 3), st.integers(3, lo + 3),
                          st.integers(lo + 3, max(lo + 4, t_inter // 2 + 3)), st.sampled_from(["inf", tot, big + 2])))
    ep = [32, 100]
    nodes = [{"type": "Memory", "name": "Main", "size": "inf", "keep": "~Intermediates", "may_keep": "All",
              "read": [draw(st.sampled_from(ep)), draw(st.sampled_from(["inf", 1, 2]))],
              "write": [draw(st.sampled_from(ep)), draw(st.sampled_from(["inf", 1, 2]))], "leak": 0},
             {"type": "Memory", "name": "GLB", "size": "inf" if vals == "inf" else vals * bits + bits / 2, "keep": "~Main",
              "may_keep": "All", "read": [draw(st.sampled_from([0.5, 1, 2])), draw(st.sampled_from(["inf", 1, 2, 4]))],
              "write": [draw(st.sampled_from([0.5, 1, 2])), draw(st.sampled_from(["inf", 1, 2, 4]))], "leak": 0},
             {"type": "Compute", "name": "MAC", "compute": [1, draw(st.sampled_from([1, 2]))], "leak": 0}]
    return {"family": "fused", "shape": kind, "einsums": es, "bounds": bounds, "bits": {"All": bits}, "n_instances": 1,
            "nodes": nodes, "mapper": {"metrics": draw(st.sampled_from(["ENERGY", "ENERGY", "LATENCY"]))}}


def check_fused(desc, col):
    """Every member of a sub-universe of valid fused mappings -- shared loops over the rank variables of the
    intermediate (at most one per variable, any order, any proper tile shape), the intermediate backed in the GLB
    right below them, then one branch per Einsum with any factorisation of the remaining bounds and any GLB
    placement of its private tensors -- must be no better than the mapper's best.  Energy and latency are additive
    over the Einsums and a branch's private tiles are freed before the next branch starts, so the sub-universe
    optimum is min over shared structures of the sum over Einsums of the best valid branch, each branch being
    evaluated as a single-Einsum mapping by evaluate_mapping."""
    import itertools

    import accelforge as af
    from accelforge.model.main import InvalidMappingError, evaluate_mapping
    from vf.gen import mapping as GM
    from vf.ref import mapspace as MS

    af.set_n_parallel_jobs(1)
    metric = desc["mapper"]["metrics"]
    es = desc["einsums"]
    bounds = desc["bounds"]
    outs = {t for e in es for t, _, o in e["tensors"] if o}
    ins = {t for e in es for t, _, o in e["tensors"] if not o}
    inter = sorted(outs & ins)[0]
    proj = {t: p for e in es for t, p, _ in e["tensors"]}
    shared_vars = list(proj[inter])
    sigmas = [[]]
    for r in range(1, len(shared_vars) + 1):
        for vs in itertools.permutations(shared_vars, r):
            tile_opts = [[d for d in range(1, bounds[v]) if bounds[v] % d == 0] for v in vs]
            for tiles in itertools.product(*tile_opts):
                sigmas.append([{"k": "loop", "rv": v, "tile": t} for v, t in zip(vs, tiles)])
    spec = G.build_spec(desc, apply_mapper=False)
    best_total, best_desc, n_eval, n_invalid = None, None, 0, 0
    for sigma in sigmas:
        cur = dict(bounds)
        for lp in sigma:
            cur[lp["rv"]] = lp["tile"]
        total, parts = 0.0, []
        for e in es:
            tens = [t for t, _, _ in e["tensors"]]
            priv = [t for t in tens if t != inter]
            rvs = sorted({v for _, p_, _ in e["tensors"] for v in p_})
            best_e, best_tree = None, None
            for tree in MS.members(e["name"], [], rvs, {v: cur[v] for v in rvs}, "Main", [("GLB", [], priv)], "MAC"):
                if col.over_budget():
                    col.case(desc, False, ["budget:universe-incomplete"])
                    return
                full = ([{"k": "storage", "level": "Main", "tensors": priv}] + sigma
                        + [{"k": "storage", "level": "GLB", "tensors": [inter]}] + tree[1:])
                spec.mapping = GM.to_af_mapping(full)
                n_eval += 1
                try:
                    r = evaluate_mapping(spec)
                except InvalidMappingError:
                    n_invalid += 1
                    continue
                row = r.data.iloc[0]
                v = float(row["Total<SEP>energy"] if metric == "ENERGY" else row["Total<SEP>latency"])
                if best_e is None or v < best_e:
                    best_e, best_tree = v, full
            if best_e is None:
                total = None
                break
            total += best_e
            parts.append(U.show(best_tree))
        if total is not None and (best_total is None or total < best_total):
            best_total, best_desc = total, parts
    n_shared = None if best_desc is None else best_desc[0].split(f"GLB[{inter}]")[0].count(" for ")
    col.case(desc, best_total is not None and len(sigmas) > 1,
             ["family:fused", f"metric:{metric}", f"shape:{desc['shape']}", "capacity_binding" if n_invalid else "capacity_free",
              f"best_fused_shared_loops:{n_shared}",
              "sub_universe_feasible" if best_total is not None else "sub_universe_infeasible"],
             sample={"family": "fused", "bounds": bounds, "metric": metric, "shared_structures": len(sigmas), "evaluated": n_eval,
                     "invalid": n_invalid, "best_fused": best_total, "argbest": best_desc})
    try:
        m = G.run_mapper(G.build_spec(desc))
    except G.Infeasible as e:
        if best_total is not None:
            raise Violation(f"mapper reports no mapping ({e}) but a valid fused mapping exists: {best_desc} ({metric} {best_total})",
                            key="mapper-infeasible")
        return
    except Exception as e:  # noqa: BLE001
        raise Violation(f"map_workload_to_arch raised {type(e).__name__}: {str(e)[:300]}", key=f"mapper-crash:{type(e).__name__}")
    col_ = "Total<SEP>energy" if metric == "ENERGY" else "Total<SEP>latency"
    best_m = min(float(x) for x in m.data[col_])
    if best_total is not None and best_m > best_total * (1 + 1e-5) + 1e-9:
        raise Violation(f"mapper optimum {best_m} ({metric}) is worse than a valid fused mapping with {best_total}: {best_desc}",
                        key="mapper-suboptimal:fused")


N = {"quick": 32, "thorough": 256}
NSHARDS = 16
QUICK_BUDGET_S = 900
THOROUGH_BUDGET_S = 3000


def shards(tier, seed):
    return [{"k": k, "n": max(1, N[tier] // NSHARDS), "seed": seed, "tier": tier} for k in range(NSHARDS)]


def run_shard(shard, col):
    mu = 1500 if shard["tier"] == "quick" else 6000
    drive(U.tiny_specs(max_universe=mu), check, n=shard["n"], seed=hash32(shard["seed"], "C01", shard["k"]), col=col,
          shrink=False)
    drive(fused_specs(), check, n=max(1, shard["n"] // 2), seed=hash32(shard["seed"], "C01f", shard["k"]), col=col,
          shrink=False)


def replay(desc, col):
    if "levels" not in desc and "spec" in desc:
        # regression descriptors that are plain G-SPEC specs: the mapper must return something
        spec = G.build_spec(desc["spec"])
        try:
            G.run_mapper(spec)
        except G.Infeasible:
            pass
        except Exception as e:  # noqa: BLE001
            raise Violation(f"map_workload_to_arch raised {type(e).__name__}: {str(e)[:300]}", key=f"mapper-crash:{type(e).__name__}")
        return
    check(desc, col)

REGISTER = True
MUTANTS = [
    {"what": "make_storages.powerset never yields the full may_keep subset", "caught": True, "how": "mapper-infeasible"},
    {"what": "make_loops: 'raise through irrelevant loops' also removes fully-relevant loops", "caught": True, "how": "mapper-suboptimal"},
    {"what": "unfixed tree before 47c9042 (constant-invalid template aborts the run)", "caught": True, "how": "regress/C01 replay"},
]
MANIFEST = {
    "level_text": "For generated tiny single-Einsum specs the documented mapspace is enumerated completely (storage subsets x storage orders x ordered factorisations of every rank bound), every member is evaluated by evaluate_mapping, and the mapper's best objective must equal the universe optimum in both directions (metrics ENERGY, LATENCY, EDP). Complete inside each enumerated universe; the spec family itself is sampled. A second family checks fused two-Einsum specs one-directionally against a sub-universe of valid fused mappings (shared loops over the intermediate's rank variables, any branch per Einsum; optimum by decomposition over Einsums): the mapper must not be worse than any member. Not a proof.",
    "level_note": "Trusted: universe rules R1,R2,R4 in vf/ref/mapspace.py (restating the documented mapspace) and evaluate_mapping as the objective (checked by C05/C06). Fused universes are a sub-universe only (the mapper may legitimately be better than every member); capacities are never an exact fit (open finding C08).",
    "technique": "property-based testing against an exhaustive brute-force reference (mapspace enumeration)",
}
