"""C03 — every mapping the mapper returns is valid for the architecture and constraints."""

import ast
import copy
import math
import os

from hypothesis import strategies as st

from vf.core import Violation, close, drive, fp, hash32
from vf.gen import canon as CN
from vf.gen import mapping as GM
from vf.gen import spec as G
from vf.ref import looptree_exec as RX
from vf.ref import setalg as SA

PROPERTY = "C03"
LEVEL = "exploration"
TOLERANCE = "integer tile arithmetic is exact; usages compared with 1e-9 slack"
RULE = (
    "Hypothesis-generated G-SPEC specs in two families. 'temporal': 1-3 Einsums (matmul, matvec, elementwise, chains of 2-3 "
    "matmuls, 2 elementwise ops, diamond), Main + GLB (+ Reg) + MAC with keep / may_keep set expressions, finite non-exact-fit "
    "sizes, all metric sets, max_fused_loops in {0,1,2,inf} and max_fused_loops_per_rank_variable in {1,2}. 'spatial': 1-2 "
    "Einsums, Main (+ GLB) + Container or Memory with 1-2 spatial dims (fanout 2-4) carrying loop_bounds (<=, <, ==, >=, "
    "product<=, product==, ==1 on ~rv) over explicit rank variables and min_usage in {0,0.5,1}, + Reg + MAC. The real mapper is "
    "run and EVERY returned Mappings.mapping(i) is converted to plain data (vf/gen/canon.py) and checked by a predicate "
    "written from the property statement: well-formed tree (each path ends in one Compute, each Einsum exactly once, every "
    "tensor has a holder), per Einsum and rank variable the tile shapes form a divisor chain from the bound down to 1, every "
    "tensor in a memory's keep set (set expression evaluated by vf/ref/setalg.py with component names bound to what the "
    "mapping stores there) has a storage node in that memory and nothing outside keep|may_keep is stored, the allocation-log "
    "peak of the literal executor vf/ref/looptree_exec.py is <= size for every memory, product of spatial trip counts per "
    "(component, dim) <= fanout, every loop_bounds comparison holds on the trip counts of the spatial loops it targets, "
    "(min_usage is only observed: a returned mapping below it while a fully valid witness exists is counted as a label, not "
    "asserted), and the number of loops with > 1 iteration "
    "above the last backing holder of a tensor shared between Einsums is <= max_fused_loops and <= the per-rank limit per "
    "rank variable. Non-trivial: some constraint class is tight in a returned mapping (equality reached / peak within one "
    "value of the size) or shown binding by a relaxed re-run (done for a hash-selected third of the cases). Distinct = "
    "distinct spec descriptor."
)
ASSUMPTIONS = [
    "tensors.tile_shape comparisons are not part of the predicate (DESIGN: the statement does not list them and the mapper never reads them)",
    "a loop_bounds comparison constrains only spatial loops of that (component, dim) that exist in the mapping (Comparison docstring: 'the loop bound of a loop that affects this rank variable'); product operators take the product over the targeted loops; no targeted loop = vacuous",
    "loop_bounds expressions are explicit rank variables / ~rv: the base set 'All' evaluates to tensors there and constrains nothing",
    "fused loops = loops with more than one iteration above the last (innermost) outermost-holder of a tensor used by several Einsums, per Einsum path; the mapper additionally counts one loop below a lowerable backing node, which is stricter",
    "for occupancy a spatial loop is executed like a temporal loop (one instance of a memory below the fanout sees one tile at a time; a memory above holds the whole tile)",
    "min_usage is NOT asserted (the statement does not list it and FFM documents a best-effort fallback); it is counted: label min_usage:below-although-reachable if a fully valid witness exists (a mapping returned for the same spec plus a loop_bounds product>= forcing that usage, which this predicate accepts and which reaches EVERY min_usage of the spec); otherwise the documented best-effort rule of FFM applies",
    "Toll components are not generated here (C31 covers them)",
]

INF = math.inf


# ---------------------------------------------------------------------------
# generators
# ---------------------------------------------------------------------------

ALL_METRICS = ["ENERGY", "LATENCY", "ENERGY|LATENCY", "ENERGY|LATENCY|RESOURCE_USAGE", "ENERGY_DELAY_PRODUCT", "ENERGY|RESOURCE_USAGE"]


@st.composite
def temporal_cases(draw, salt=0):
    d = draw(G.specs(shapes=("chain2", "chain2", "elementwise2", "matmul", "matvec", "elementwise", "chain3", "diamond"),
                     levels=(2, 2, 3), metrics=ALL_METRICS, bound_pool=[1, 2, 2, 3, 4, 6, 8], allow_leak=True, max_ops=300))
    if len(d["einsums"]) >= 3 or (len(d["einsums"]) == 2 and len(d["nodes"]) > 3):
        d["bounds"] = {k: min(v, 3) for k, v in d["bounds"].items()}
        _clamp_sizes(d)
    # pools are rotated by a per-shard salt: with 2 examples per shard Hypothesis' preference for the first element of
    # sampled_from (its "simplest" example) would otherwise starve the other values
    d["mapper"]["max_fused_loops"] = draw(st.sampled_from(rot([1, 0, 2, "inf", "inf"], salt)))
    d["mapper"]["max_fused_loops_per_rank_variable"] = draw(st.sampled_from(rot([1, 2, 1], salt // 5)))
    return {"spec": d, "family": "temporal"}


def _clamp_sizes(d):
    bits = list(d["bits"].values())[0]
    tot = sum(G.tensor_sizes(d).values())
    for n in d["nodes"]:
        if n["type"] == "Memory" and n["name"] != "Main" and n["size"] != "inf":
            n["size"] = min(n["size"], tot * bits + bits / 2)


def rot(lst, k):
    k %= len(lst)
    return list(lst[k:]) + list(lst[:k])


OPS = ["product==", "<", "==", "product<=", ">=", "<=", "==1", "<="]


@st.composite
def loop_bound(draw, rvs, fanout, salt=0):
    op = draw(st.sampled_from(rot(OPS, salt)))
    rv = draw(st.sampled_from(rot(rvs, salt // 8)))
    if op == "==1":
        return {"expression": "~" + rv, "operator": "==", "value": 1}
    if op.startswith("product"):
        others = [r for r in rvs if r != rv]
        # "a | b": the documented union; a "{a, b}" literal is NOT evaluated by accelforge (it stays a string that is
        # matched by substring), so it is not generated
        expr = " | ".join(sorted([rv] + ([draw(st.sampled_from(others))] if others else [])))
        return {"expression": expr, "operator": op, "value": draw(st.sampled_from([2, fanout, max(2, fanout - 1)]))}
    if op == ">=":
        return {"expression": rv, "operator": op, "value": 2}
    if op == "<":
        return {"expression": rv, "operator": op, "value": draw(st.sampled_from([fanout, 3]))}
    return {"expression": rv, "operator": op, "value": draw(st.sampled_from([2, 2, 3]))}


@st.composite
def deep_spatial_cases(draw, salt=0):
    """variant C: one Einsum on Main + GLB + L1 above a fanout + MAC, with an `==` / `>=` loop bound of 2..4 on a rank
    variable whose bound is large enough for two temporal loops above the spatial one (the constrained trip count is then
    'innermost enclosing tile / own tile', which differs from 'outermost enclosing tile / own tile')"""
    shape = draw(st.sampled_from(["matmul", "matmul", "matvec"]))
    es, rvs = G.matmul_ab() if shape == "matmul" else G.matvec()
    crv = draw(st.sampled_from(rvs))
    fanout = draw(st.sampled_from([2, 4, 4]))
    bounds = {rv: (draw(st.sampled_from([8, 16, 16])) if rv == crv else draw(st.sampled_from([2, 2, 4]))) for rv in rvs}
    bits = draw(st.sampled_from([4, 8]))
    wl = {"shape": shape, "einsums": es, "bounds": bounds, "bits": {"All": bits}, "n_instances": 1}
    sizes = G.tensor_sizes(wl)
    tot, big = sum(sizes.values()), max(sizes.values())
    op = draw(st.sampled_from(["==", "==", ">="]))
    val = draw(st.sampled_from([2, fanout, fanout, fanout]))
    dim = {"name": "X", "fanout": fanout, "loop_bounds": [{"expression": crv, "operator": op, "value": val}]}
    if draw(st.booleans()):
        other = [r for r in rvs if r != crv]
        dim["loop_bounds"].append({"expression": draw(st.sampled_from(other)), "operator": "==", "value": 1})
    glb_vals = draw(st.sampled_from([max(4, tot // 2), max(4, big), max(4, big // 2), "inf"]))
    # the buffer above the array feeds all PEs: the constrained fanout needs `val` values of every tensor indexed by the
    # constrained rank variable plus one of each other tensor; capacities around that threshold decide whether a valid
    # mapping exists at all
    need = sum(val if crv in proj else 1 for e in es for _, proj, _ in e["tensors"])
    l1_vals = draw(st.sampled_from([need - 1, need - 1, need - 1, need, need + 1, 2 * need]))
    nodes = [{"type": "Memory", "name": "Main", "size": "inf", "keep": "All", "may_keep": "All",
              "read": [draw(st.sampled_from([10, 50])), draw(st.sampled_from(["inf", 2]))],
              "write": [draw(st.sampled_from([10, 50])), draw(st.sampled_from(["inf", 2]))], "leak": 0},
             {"type": "Memory", "name": "GLB", "size": "inf" if glb_vals == "inf" else glb_vals * bits + bits / 2,
              "keep": draw(st.sampled_from(["All", "All", "Nothing"])), "may_keep": "All", "read": [2, draw(st.sampled_from(["inf", 4]))],
              "write": [2, draw(st.sampled_from(["inf", 4]))], "leak": 0},
             {"type": "Memory", "name": "Reg", "size": l1_vals * bits + bits / 2,
              "keep": "All", "may_keep": "All", "read": [1, "inf"], "write": [1, "inf"], "leak": 0},
             {"type": "Container", "name": "PEs", "spatial": [dim]},
             {"type": "Compute", "name": "MAC", "compute": [1, 1], "leak": 0}]
    d = dict(wl)
    d["nodes"] = nodes
    # large fronts (RESOURCE_USAGE among the metrics) return many mappings, every one of which is validated
    d["mapper"] = {"metrics": draw(st.sampled_from(["LATENCY", "ENERGY", "ENERGY|LATENCY|RESOURCE_USAGE", "ENERGY|LATENCY|RESOURCE_USAGE"]))}
    return {"spec": d, "family": "spatial", "deep": True}


@st.composite
def spatial_cases(draw, salt=0):
    """variant A: one Einsum on Main + fanout (Container, or declared on the Reg memory) + Reg + MAC, 1-2 dims;
    variant B: two Einsums (fusable) on Main + GLB + Container fanout + MAC, 1 dim (a Reg level below a fanout with
    two Einsums costs minutes per mapper run)."""
    two = draw(st.sampled_from(rot([True, False, False], salt)))
    if two:
        wl = draw(G.workloads(shapes=("chain2", "chain2", "elementwise2"), bound_pool=[1, 2, 2, 3, 3, 4], max_ops=64))
        wl["bounds"] = {k: min(v, 4) for k, v in wl["bounds"].items()}
    else:
        wl = draw(G.workloads(shapes=("matmul", "matmul", "matvec", "elementwise"), bound_pool=[2, 2, 3, 4, 4, 6], max_ops=150))
    rvs = sorted(wl["bounds"])
    bits = list(wl["bits"].values())[0]
    sizes = G.tensor_sizes(wl)
    tot, big = sum(sizes.values()), max(sizes.values())
    main_keep = draw(st.sampled_from(["~Intermediates", "~Intermediates", "All"])) if two else "All"
    nodes = [{"type": "Memory", "name": "Main", "size": "inf", "keep": main_keep, "may_keep": "All",
              "read": [draw(st.sampled_from([2, 10])), draw(st.sampled_from(["inf", 2]))],
              "write": [draw(st.sampled_from([2, 10])), draw(st.sampled_from(["inf", 2]))], "leak": 0}]
    if two:
        vals = draw(st.sampled_from([tot, max(2, tot // 2), big + 2, "inf"]))
        nodes.append({"type": "Memory", "name": "GLB", "size": "inf" if vals == "inf" else vals * bits + bits / 2,
                      "keep": "~Main" if main_keep != "All" else "Nothing", "may_keep": "All",
                      "read": [1, draw(st.sampled_from(["inf", 4]))], "write": [1, draw(st.sampled_from(["inf", 4]))], "leak": 0})
    ndims = 1 if two else draw(st.sampled_from([1, 1, 2]))
    dims = []
    for name in ["X", "Y"][:ndims]:
        fanout = draw(st.sampled_from([2, 3, 4, 4]))
        dim = {"name": name, "fanout": fanout}
        nlb = draw(st.sampled_from([1, 1, 0, 1, 2]))
        if nlb:
            dim["loop_bounds"] = [draw(loop_bound(rvs, fanout, salt + 3 * j)) for j in range(nlb)]
        mu = draw(st.sampled_from(rot([0, 0.5, 0, 1], salt)))
        if mu:
            dim["min_usage"] = mu
        dims.append(dim)
    if two:
        nodes.append({"type": "Container", "name": "PEs", "spatial": dims})
    else:
        reg_vals = draw(st.sampled_from([1, 2, 3, 4, "inf"]))
        reg = {"type": "Memory", "name": "Reg", "size": "inf" if reg_vals == "inf" else reg_vals * bits + bits / 2,
               "keep": draw(st.sampled_from(["Nothing", "Nothing", "Outputs"])), "may_keep": "All",
               "read": [draw(st.sampled_from([0.5, 1])), draw(st.sampled_from(["inf", 4]))],
               "write": [draw(st.sampled_from([0.5, 1])), draw(st.sampled_from(["inf", 4]))], "leak": 0}
        if draw(st.integers(0, 3)) == 0:
            reg["spatial"] = dims                 # fanout declared on the memory itself
            nodes.append(reg)
        else:
            nodes.append({"type": "Container", "name": "PEs", "spatial": dims})
            nodes.append(reg)
    nodes.append({"type": "Compute", "name": "MAC", "compute": [1, 1], "leak": 0})
    d = dict(wl)
    d["nodes"] = nodes
    d["mapper"] = {"metrics": draw(st.sampled_from(["ENERGY|LATENCY", "ENERGY", "LATENCY", "ENERGY|LATENCY|RESOURCE_USAGE"]))}
    if two:
        d["mapper"]["max_fused_loops"] = draw(st.sampled_from(rot([1, 2, "inf"], salt)))
    return {"spec": d, "family": "spatial"}


# ---------------------------------------------------------------------------
# the validity predicate (independent of the mapper)
# ---------------------------------------------------------------------------

def setalg_workload(sp):
    tensors, einsums = {}, []
    for e in sp["einsums"]:
        for t, p, _ in e["tensors"]:
            tensors[t] = {"rv": list(p), "persistent": False}
        einsums.append({"name": e["name"], "inputs": [t for t, _, o in e["tensors"] if not o],
                        "output": [t for t, _, o in e["tensors"] if o][0]})
    return {"tensors": tensors, "einsums": einsums}


def parse_expr(s):
    """set expression (names, ~, &, |, -, ^, {a, b}, parentheses) -> vf.ref.setalg tree"""
    def conv(n):
        if isinstance(n, ast.Name):
            return ["name", n.id]
        if isinstance(n, ast.UnaryOp) and isinstance(n.op, ast.Invert):
            return ["not", conv(n.operand)]
        if isinstance(n, ast.BinOp):
            op = {ast.BitAnd: "and", ast.BitOr: "or", ast.Sub: "sub", ast.BitXor: "xor"}[type(n.op)]
            return [op, conv(n.left), conv(n.right)]
        if isinstance(n, ast.Set):
            items = [conv(x) for x in n.elts]
            out = items[0]
            for x in items[1:]:
                out = ["or", out, x]
            return out
        raise ValueError(f"unsupported set expression node {ast.dump(n)}")
    return conv(ast.parse(s.strip(), mode="eval").body)


def eval_set(expr, env, uni, wl):
    return SA.eval_tree(parse_expr(expr), env, uni, wl)[1]


class Bad(Exception):
    def __init__(self, key, msg):
        super().__init__(msg)
        self.key, self.msg = key, msg


def analyse_path(sp, path, stats):
    """one root-to-compute path.  Raises Bad; returns per-path facts."""
    comp = path[-1]
    if comp["k"] != "compute":
        raise Bad("wellformed:no-compute", "a branch does not end in a Compute node")
    if sum(n["k"] == "compute" for n in path) != 1:
        raise Bad("wellformed:compute-count", "a root-to-leaf path holds more than one Compute node")
    e = [x for x in sp["einsums"] if x["name"] == comp["einsum"]]
    if not e:
        raise Bad("wellformed:unknown-einsum", f"Compute names unknown Einsum {comp['einsum']}")
    e = e[0]
    rvs = sorted({v for _, p, _ in e["tensors"] for v in p})
    cur = {rv: sp["bounds"][rv] for rv in rvs}
    loops = []
    for idx, n in enumerate(path):
        if n["k"] != "loop":
            continue
        rv, tile = n["rv"], n["tile"]
        if rv not in cur:
            raise Bad("loops:foreign-rank-variable", f"Einsum {e['name']} sits under a loop over {rv}, which does not index it (it would be computed more than once)")
        if not isinstance(tile, int) or tile < 1:
            raise Bad("loops:tile-not-integer", f"loop over {rv} has tile shape {tile!r}")
        if n.get("init") not in (None, tile):
            raise Bad("loops:imperfect", f"loop over {rv} has initial tile shape {n['init']} != tile shape {tile} although imperfect loops are off")
        if cur[rv] % tile:
            raise Bad("loops:imperfect", f"Einsum {e['name']}: tile shape {tile} of loop over {rv} does not divide the enclosing tile {cur[rv]}")
        trips = cur[rv] // tile
        if n.get("n_it") is not None and n["n_it"] != trips:
            stats["n_it_annotation_differs"] = stats.get("n_it_annotation_differs", 0) + 1
        loops.append({"idx": idx, "rv": rv, "tile": tile, "outer": cur[rv], "trips": trips, "spatial": n.get("spatial")})
        cur[rv] = tile
    for rv in rvs:
        if cur[rv] != 1:
            raise Bad("loops:not-fully-iterated", f"Einsum {e['name']}: innermost tile of {rv} is {cur[rv]} (bound {sp['bounds'][rv]}), not 1")
    holders = {}
    first_holder_idx = {}
    for idx, n in enumerate(path):
        if n["k"] in ("storage", "toll"):
            for t in n["tensors"]:
                holders.setdefault(n["level"], set()).add(t)
                first_holder_idx.setdefault(t, idx)
    mine = [t for t, _, _ in e["tensors"]]
    for t in mine:
        if t not in first_holder_idx:
            raise Bad("wellformed:no-holder", f"tensor {t} of Einsum {e['name']} has no storage node above its Compute")
    return {"einsum": e["name"], "rvs": rvs, "loops": loops, "holders": holders, "first_holder_idx": first_holder_idx, "tensors": mine}


CMP = {"<=": lambda a, b: a <= b, "<": lambda a, b: a < b, "==": lambda a, b: a == b, ">=": lambda a, b: a >= b, ">": lambda a, b: a > b}


def validate(sp, tree, stats):
    """Raise Bad(key, message) if the mapping `tree` is not valid for spec descriptor `sp`; record tightness in stats."""
    wl = setalg_workload(sp)
    names = [e["name"] for e in sp["einsums"]]
    paths = CN.paths(tree)
    got = [p[-1].get("einsum") for p in paths if p and p[-1]["k"] == "compute"]
    if len(got) != len(paths):
        raise Bad("wellformed:no-compute", "a branch does not end in a Compute node")
    if sorted(got) != sorted(names):
        raise Bad("wellformed:einsum-once", f"Einsums computed {sorted(got)} vs workload {sorted(names)}")
    facts = [analyse_path(sp, p, stats) for p in paths]
    arch = sp["nodes"]
    _, shared, _, _ = G.einsum_tensors(sp)
    users = {}
    for e in sp["einsums"]:
        for t, _, _ in e["tensors"]:
            users.setdefault(t, set()).add(e["name"])
    fusable = {t for t, u in users.items() if len(u) > 1}
    mapper = sp.get("mapper") or {}
    mfl = G.num(mapper.get("max_fused_loops", "inf"))
    mflr = G.num(mapper.get("max_fused_loops_per_rank_variable", 1))

    for f in facts:
        e = f["einsum"]
        env = SA.base_env(wl, e)
        uni = SA.universes(wl, e)
        # ---- keep / may_keep ------------------------------------------------------------
        for node in arch:
            if node["type"] != "Memory":
                continue
            held = f["holders"].get(node["name"], set()) & set(f["tensors"])
            keep = eval_set(node.get("keep", "Nothing"), env, uni, wl)
            may = eval_set(node.get("may_keep", "All" if "keep" not in node else "Nothing"), env, uni, wl)
            missing = keep - held
            if missing:
                raise Bad("keep:missing", f"Einsum {e}: {node['name']} must keep {sorted(keep)} (keep: {node.get('keep')}) but the mapping stores only {sorted(held)} there")
            extra = held - keep - may
            if extra:
                raise Bad("keep:not-allowed", f"Einsum {e}: {node['name']} stores {sorted(extra)} outside keep|may_keep ({node.get('keep')} | {node.get('may_keep')})")
            if keep:
                stats["keep:present"] = 1
                if node["name"] != "Main" and node.get("keep") != "~Main" and may - keep:
                    stats["tight:keep"] = 1       # a required set beyond the Main/~Main idiom where bypassing was an option
            env[node["name"]] = ("T", frozenset(held))
        # ---- spatial fanout, loop bounds, min usage --------------------------------------
        for node in arch:
            for dim in node.get("spatial") or []:
                key = [node["name"], dim["name"]]
                sl = [l for l in f["loops"] if l["spatial"] == key]
                used = math.prod(l["trips"] for l in sl)
                stats["fanout:present"] = 1
                if used > dim["fanout"]:
                    raise Bad("fanout", f"Einsum {e}: spatial loops on {key} have {[(l['rv'], l['trips']) for l in sl]} = {used} instances, fanout is {dim['fanout']}")
                if used == dim["fanout"]:
                    stats["tight:fanout"] = 1
                for lb in dim.get("loop_bounds") or []:
                    op = lb["operator"]
                    lab = "loop_bounds:" + op + ("1" if lb["value"] == 1 and op == "==" else "")
                    stats[lab + ":present"] = 1
                    target_rvs = eval_set(lb["expression"], env, uni, wl)
                    tl = [l for l in sl if l["rv"] in target_rvs]
                    if not tl:
                        continue
                    base = op.replace("product", "")
                    vals = [math.prod(l["trips"] for l in tl)] if op.startswith("product") else [l["trips"] for l in tl]
                    for v in vals:
                        if not CMP[base](v, lb["value"]):
                            raise Bad("loop_bounds:" + op, f"Einsum {e}: loop_bounds {lb} on {key} violated by spatial loops {[(l['rv'], l['trips']) for l in tl]}")
                        if v == lb["value"] or (base == "<" and v == lb["value"] - 1):
                            stats["tight:" + lab] = 1
                mu = dim.get("min_usage", 0)
                if mu:
                    stats["min_usage:present"] = 1
                    usage = used / dim["fanout"]
                    if usage < mu - 1e-9:
                        stats.setdefault("min_usage_below", []).append({"einsum": e, "component": node["name"], "dim": dim["name"],
                                                                        "usage": usage, "min_usage": mu, "fanout": dim["fanout"], "rvs": f["rvs"]})
                    elif used < dim["fanout"] or mu == 1:
                        stats["tight:min_usage"] = 1
            for l in f["loops"]:
                pass
        for l in f["loops"]:
            if l["spatial"] and not any(n["name"] == l["spatial"][0] and any(d["name"] == l["spatial"][1] for d in n.get("spatial") or []) for n in arch):
                raise Bad("fanout:unknown-dimension", f"spatial loop over {l['rv']} names {l['spatial']}, which the architecture does not declare")
        # ---- fused loops -----------------------------------------------------------------
        mine_fusable = [t for t in f["tensors"] if t in fusable]
        if mine_fusable:
            last_backer = max(f["first_holder_idx"][t] for t in mine_fusable)
            fl = [l for l in f["loops"] if l["idx"] < last_backer and l["trips"] > 1]
            stats["fused_loops:present"] = 1
            stats["max_fused_seen"] = max(stats.get("max_fused_seen", 0), len(fl))
            if len(fl) > mfl:
                raise Bad("max_fused_loops", f"Einsum {e}: {len(fl)} loops with >1 iteration above the last backing holder of {mine_fusable} "
                                             f"({[(l['rv'], l['trips']) for l in fl]}), max_fused_loops = {mfl}")
            if not math.isinf(mfl):
                stats["max_fused_loops:finite"] = 1
                if len(fl) == mfl and mfl > 0:
                    stats["tight:max_fused_loops"] = 1
                if mfl == 0:
                    stats["tight:max_fused_loops"] = 1
            per = {}
            for l in fl:
                per[l["rv"]] = per.get(l["rv"], 0) + 1
            for rv, c in per.items():
                if c > mflr:
                    raise Bad("max_fused_loops_per_rank_variable", f"Einsum {e}: {c} fused loops over {rv}, limit {mflr}")
                if c == mflr:
                    stats["tight:per_rank_fused"] = 1

    # ---- capacity: allocation-log peak of the literal executor -----------------------------
    einsums, bounds, comps, wl_bits = GM.to_ref({"spec": sp})
    res = RX.Executor(einsums, bounds, comps, wl_bits).run(CN.exec_tree(tree))
    peaks = dict(res.peak_bits)
    for node in arch:
        if node["type"] != "Memory":
            continue
        size = G.num(node["size"])
        pk = peaks.get(node["name"], 0)
        if not math.isinf(size):
            stats["capacity:present"] = 1
            bpv = max(wl_bits.values())
            if pk > size + 1e-9:
                raise Bad("capacity", f"{node['name']}: executed peak occupancy {pk} bits exceeds size {size} bits")
            if size - pk < bpv + 1e-9 and pk > 0:
                stats["tight:capacity"] = 1
    return peaks


# ---------------------------------------------------------------------------
# relaxed re-runs (binding labels) and the min_usage witness
# ---------------------------------------------------------------------------

def classes_present(sp):
    out = []
    if any(n["type"] == "Memory" and n["size"] != "inf" for n in sp["nodes"]):
        out.append("capacity")
    dims = [d for n in sp["nodes"] for d in n.get("spatial") or []]
    if dims:
        out.append("fanout")
    if any(d.get("loop_bounds") for d in dims):
        out.append("loop_bounds")
    if any(d.get("min_usage") for d in dims):
        out.append("min_usage")
    mp = sp.get("mapper") or {}
    if len(sp["einsums"]) > 1:
        if mp.get("max_fused_loops", "inf") != "inf":
            out.append("max_fused_loops")
        out.append("per_rank_fused")
    if any(n["type"] == "Memory" and n["name"] != "Main" and n.get("keep", "Nothing") not in ("Nothing", "~Main") for n in sp["nodes"]):
        out.append("keep")
    return out


def relax(sp, cls):
    d = copy.deepcopy(sp)
    for n in d["nodes"]:
        if cls == "capacity" and n["type"] == "Memory":
            n["size"] = "inf"
        if cls == "keep" and n["type"] == "Memory" and n["name"] != "Main":
            n["keep"] = "~Main" if "~Main" in n.get("keep", "") else "Nothing"
        for dim in n.get("spatial") or []:
            if cls == "fanout":
                dim["fanout"] *= 4
                if dim.get("min_usage"):
                    dim["min_usage"] = dim["min_usage"] / 4
            if cls == "loop_bounds":
                dim.pop("loop_bounds", None)
            if cls == "min_usage":
                dim.pop("min_usage", None)
    if cls == "max_fused_loops":
        d["mapper"]["max_fused_loops"] = "inf"
    if cls == "per_rank_fused":
        d["mapper"]["max_fused_loops_per_rank_variable"] = 3
    return d


def first_objective(m, metrics):
    name = "latency" if metrics.startswith("LATENCY") else ("energy_delay_product" if metrics.startswith("ENERGY_DELAY") else "energy")
    c = f"Total<SEP>{name}"
    return min(float(x) for x in m.data[c]) if c in m.data.columns else None


def witness_reaches_min_usage(sp, item):
    """Is there a FULLY valid mapping (this predicate, every min_usage of the spec reached)?  Searched by re-running the
    mapper with loop_bounds product>= forcing the usage on the dimension that a returned mapping under-uses.  If some
    other min_usage is unreachable no mapping is strictly valid and the documented best-effort rule applies, so only a
    fully valid witness makes the under-use a violation."""
    d = copy.deepcopy(sp)
    need = math.ceil(item["min_usage"] * item["fanout"] - 1e-9)
    for n in d["nodes"]:
        if n["name"] == item["component"]:
            for dim in n["spatial"]:
                if dim["name"] == item["dim"]:
                    dim.setdefault("loop_bounds", []).append({"expression": " | ".join(item["rvs"]), "operator": "product>=", "value": need})
    try:
        m = G.run_mapper2(G.build_spec(d))
    except Exception:  # noqa: BLE001  (no witness)
        return None
    for i in range(len(m.data)):
        t = CN.tree(m.mapping(i))
        st_ = {}
        try:
            validate(sp, t, st_)
        except Bad:
            continue
        if not st_.get("min_usage_below"):
            return CN.show(t)
    return None


# ---------------------------------------------------------------------------
# the check
# ---------------------------------------------------------------------------

def check(desc, col):
    sp = desc["spec"]
    family = desc.get("family") or ("spatial" if any(n.get("spatial") for n in sp["nodes"]) else "temporal")
    metrics = (sp.get("mapper") or {}).get("metrics", "ENERGY")
    present = classes_present(sp)
    base = [f"family:{family}" + ("-deep" if desc.get("deep") else ""), f"einsums:{len(sp['einsums'])}", f"metrics:{metrics}"] + [f"present:{c}" for c in present]
    for n in sp["nodes"]:
        for dim in n.get("spatial") or []:
            for lb in dim.get("loop_bounds") or []:
                base.append("present:loop_bounds:" + lb["operator"] + ("1" if lb["value"] == 1 and lb["operator"] == "==" else ""))
    mp = sp.get("mapper") or {}
    if len(sp["einsums"]) > 1:
        base.append(f"max_fused_loops:{mp.get('max_fused_loops', 'inf')}")
        base.append(f"per_rank_limit:{mp.get('max_fused_loops_per_rank_variable', 1)}")
    # half of the cases take the joiner's result as is (eval_in_detail=False: nothing but this predicate stands between a
    # wrongly admitted mapping and the user), the other half the default path (the model re-evaluates every mapping)
    detail = int(fp(sp), 16) % 2 == 0
    base.append("eval_in_detail:on" if detail else "eval_in_detail:off")
    try:
        m = G.run_mapper2(G.build_spec(sp), eval_in_detail=detail)
    except G.Infeasible:
        col.case(desc, False, base + ["mapper:infeasible"])
        return
    except Exception as e:  # noqa: BLE001
        import traceback
        col.case(desc, False, base + ["mapper:crash"])
        raise Violation(f"map_workload_to_arch raised {type(e).__name__}: {str(e)[:300]}\n{traceback.format_exc(limit=4)[-600:]}",
                        key=f"mapper-crash:{type(e).__name__}")
    n = len(m.data)
    stats = {}
    trees, bad = [], None
    for i in range(n):
        try:
            t = CN.tree(m.mapping(i))
        except CN.Unsupported as u:
            bad = bad or (i, Bad("wellformed:unsupported-node", str(u)), None)
            continue
        trees.append(t)
        try:
            validate(sp, t, stats)
        except Bad as b:
            bad = bad or (i, b, t)
    tight = sorted(k for k in stats if k.startswith("tight:"))
    labels = base + [f"rows:{min(n, 3)}{'+' if n >= 3 else ''}"] + tight
    if stats.get("n_it_annotation_differs"):
        labels.append("n_it_annotation_differs")
    if "max_fused_seen" in stats:
        labels.append(f"fused_loops_seen:{min(stats['max_fused_seen'], 3)}")
    # ---- binding by relaxation (hash-selected third of the cases) --------------------------
    binding = []
    if present and bad is None and int(fp(desc), 16) % 3 == 0:
        pool = [c for c in present if c != "capacity"] or present      # capacity is present almost everywhere
        if "capacity" in present and (int(fp(desc), 16) // 3) % 4 == 0:
            pool = ["capacity"]
        cls = pool[(int(fp(desc), 16) // 12) % len(pool)]
        labels.append(f"relaxed_run:{cls}")
        try:
            m2 = G.run_mapper2(G.build_spec(relax(sp, cls)), eval_in_detail=detail)
            a, b = first_objective(m, metrics), first_objective(m2, metrics)
            if a is not None and b is not None:
                if b < a and not close(a, b, rel=1e-6):
                    binding.append(cls)
                    labels.append(f"binding:{cls}")
                elif b > a and not close(a, b, rel=1e-6):
                    labels.append("relaxed_run:worse(C18's subject)")
                else:
                    labels.append(f"not_binding:{cls}")
        except Exception:  # noqa: BLE001
            labels.append("relaxed_run:failed")
    nontrivial = bool(tight or binding)
    col.case(desc, nontrivial, labels,
             sample={"family": family, "shape": sp.get("shape"), "bounds": sp["bounds"], "rows": n, "tight": tight, "binding": binding,
                     "first_mapping": CN.show(trees[0]) if trees else None})
    if bad:
        i, b, t = bad
        raise Violation(f"returned mapping {i} of {n} is invalid: {b.msg}\nmapping: {CN.show(t) if t else None}", key=b.key)
    # ---- min_usage below the minimum: violation only with a witness -------------------------
    seen = set()
    for item in stats.get("min_usage_below", []):
        k = (item["einsum"], item["component"], item["dim"])
        if k in seen:
            continue
        seen.add(k)
        w = witness_reaches_min_usage(sp, item)
        # observed and counted, NOT asserted: the C03 statement does not name min_usage and FFM documents a best-effort
        # fallback (which the implementation applies per pmapping template, see known/C03/)
        col.label("min_usage:below_no_witness" if w is None else "min_usage:below-although-reachable")


N = {"quick": (32, 32, 32), "thorough": (320, 320, 320)}    # temporal, spatial, deep spatial
NSHARDS = 16
QUICK_BUDGET_S = 600
THOROUGH_BUDGET_S = 3000


def shards(tier, seed):
    a, b, c = N[tier]
    return [{"k": k, "n_temporal": a // NSHARDS, "n_spatial": b // NSHARDS, "n_deep": c // NSHARDS, "seed": seed}
            for k in range(NSHARDS)]


def run_shard(shard, col):
    shrink = os.environ.get("VF_NO_SHRINK") != "1"   # VF_NO_SHRINK=1: mutation experiments only (each shrink step is a mapper run)
    salt = shard["k"] + hash32(shard["seed"], "C03salt") % 97
    drive(temporal_cases(salt), check, n=shard["n_temporal"], seed=hash32(shard["seed"], "C03t", shard["k"]), col=col, shrink=shrink)
    drive(spatial_cases(salt), check, n=shard["n_spatial"], seed=hash32(shard["seed"], "C03s", shard["k"]), col=col, shrink=shrink)
    drive(deep_spatial_cases(salt), check, n=shard.get("n_deep", 0), seed=hash32(shard["seed"], "C03d", shard["k"]), col=col,
          shrink=shrink)


def replay(desc, col):
    check(desc, col)


REGISTER = True
MUTANTS = [
    {"what": "_make_tile_shapes: usage objectives (memory and spatial) use max_value=1.5", "caught": True,
     "how": "capacity, fanout (eval_in_detail=False cases) and mapper-crash:InvalidMappingError (default path: the model rejects the mapping)"},
    {"what": "check_loops: n <= limit + 1", "caught": True, "how": "max_fused_loops"},
    {"what": "_make_tile_shapes: loop_bounds upper limit value + 1", "caught": True, "how": "loop_bounds:<, loop_bounds:product=="},
    {"what": "make_tensor_choices_one_level: must_keep not united into the keep choice", "caught": True,
     "how": "mapper-crash:ValueError (accelforge's own check fires before a mapping is returned; the predicate's keep:missing is not reached)"},
    {"what": "PmappingDataframe.limit_capacity: rows kept up to 1.5 + tolerance (both occurrences)", "caught": True, "how": "capacity"},
]
MANIFEST = {
    "level_text": "A validity predicate written from the property statement (well-formed tree, divisor-chain tile shapes down to 1 for every rank variable of every Einsum, keep/may_keep sets, allocation-log peak <= size, spatial fanout, loop_bounds comparisons, fused-loop limits; min_usage observed only) is applied to every mapping returned by the real mapper on N generated small specs (temporal and spatial families). No invalid mapping found; not a proof.",
    "level_note": "Trusted: vf/ref/looptree_exec.py allocation log (validated against the model by C06 on temporal trees; spatial loops executed as temporal), vf/ref/setalg.py. tensors.tile_shape constraints, Tolls, persistent tensors, imperfect loops are outside the domain.",
    "technique": "property-based testing of real mapper output against an independent validity predicate + reference executor (Hypothesis)",
}
