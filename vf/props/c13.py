"""C13 — joining pmappings equals the exhaustive combination of compatible pmappings."""

import itertools

from hypothesis import strategies as st

from vf.core import Violation, close, drive, hash32
from vf.gen import spec as G
from vf.ref.pareto import ref_pareto_mask

PROPERTY = "C13"
LEVEL = "exploration"
TOLERANCE = "objective/usage vectors matched with rel 1e-5"
RULE = (
    "Hypothesis-generated 2-3 Einsum specs (chain2, chain3, elementwise2, diamond; max_fused_loops in {0,1,2,inf}; GLB sizes "
    "that allow and forbid fusion; metric sets with and without RESOURCE_USAGE). make_pmappings builds the real per-Einsum "
    "tables; a drawn subset of <= K rows per Einsum is kept (so that different rows become optimal and brute force stays "
    "small). Oracle: EVERY tuple of one kept row per Einsum is joined on its own as singleton tables (the join of a 1x...x1 "
    "table is either empty -- the rows disagree on a shared tensor or exceed capacity -- or the single combined mapping, "
    "whose metrics are the primitive that C04/C05/C06 check against the model and the literal executor); the exact O(n^2) "
    "Pareto filter of all tuple results must equal, as a set of (energy, latency[, usage]) vectors, the front the public "
    "join returns for the subset tables. For diamonds both valid Einsum orders are joined, each against the brute force in the same order (lifetimes depend on the order). Non-trivial: >= 1 "
    "agreeing tuple is fused (a shared tensor backed below Main), >= 1 tuple is rejected, and >= 4 tuples were enumerated. "
    "Distinct = distinct (spec, row subset)."
)
ASSUMPTIONS = [
    "the join of singleton tables is the trusted primitive for 'agree' and for lifetime-combined reservations (validated separately by C04, C05, C06); C13 tests that joining large tables equals combining every tuple",
    "memory capacities are never an exact fit (known finding C08 exact-fit float32)",
]
K = {2: 9, 3: 5}


@st.composite
def cases(draw):
    sp = draw(G.specs(shapes=("chain2", "chain2", "elementwise2", "chain3", "diamond"), levels=(2, 2, 3),
                      metrics=("ENERGY", "ENERGY|LATENCY", "ENERGY|LATENCY|RESOURCE_USAGE", "ENERGY|RESOURCE_USAGE"),
                      finite_tp=True, bound_pool=[2, 2, 3, 4, 4, 6], max_ops=600))
    if draw(st.integers(0, 1)) == 0:
        sp["mapper"]["max_fused_loops"] = draw(st.sampled_from([0, 1, 2, "inf"]))
    pick_seed = draw(st.integers(0, 2**20))
    return {"spec": sp, "pick_seed": pick_seed}


def _vec(df, i, with_usage, usage, mems):
    v = []
    for c in ("Total<SEP>energy", "Total<SEP>latency"):
        if c in df.columns:
            v.append(float(df[c].iloc[i]))
    if with_usage:
        v += [float(usage.get(m, [0.0] * len(df))[i]) for m in mems]
    return tuple(v)


def _front_of(mappings, with_usage, mems):
    df = mappings.data
    usage = mappings.resource_usage(list_if_one_mapping=True) if with_usage else {}
    return sorted({_vec(df, i, with_usage, usage, mems) for i in range(len(df))})


def _same(a, b):
    return len(a) == len(b) and all(close(x, y, rel=1e-5, abs_=1e-9) for x, y in zip(a, b))


def _subset_pm(pm, chosen):
    """chosen: {einsum: [(group index, row position), ...]} -> MultiEinsumPmappings restricted to those rows"""
    import copy
    from accelforge.mapper.FFM._join_pmappings.pmapping_group import PmappingGroup
    from accelforge.mapper.FFM.pmappings import MultiEinsumPmappings

    e2p = {}
    for e, groups in pm.einsum2pmappings.items():
        new = []
        by_group = {}
        for gi, ri in chosen[e]:
            by_group.setdefault(gi, []).append(ri)
        for gi, rows in sorted(by_group.items()):
            g = groups[gi]
            data = g.mappings.data.iloc[sorted(rows)].copy()
            new.append(PmappingGroup(g.compatibility, g.mappings.update(data=data, skip_pareto=True)))
        e2p[e] = new
    return MultiEinsumPmappings(spec=copy.deepcopy(pm.spec), einsum2pmappings=e2p, pmapping_objects=pm.pmapping_objects,
                                einsum2jobs=pm.einsum2jobs, can_combine_multiple_runs=pm.can_combine_multiple_runs,
                                einsums_with_pmappings_generated=pm.einsums_with_pmappings_generated,
                                flattened_arches=pm.flattened_arches, evaluated_specs=pm.evaluated_specs)


def _no_mapping(e):
    s = str(e).lower()
    return "no mappings" in s or "no pmappings" in s or "no match" in s or "no valid" in s


def check(desc, col):
    import random

    import accelforge as af
    from accelforge.mapper.FFM import main as M
    from accelforge.mapper.FFM._join_pmappings import join_pmappings as JP

    af.set_n_parallel_jobs(1)
    sp = desc["spec"]
    with_usage = "RESOURCE_USAGE" in sp["mapper"]["metrics"]
    mems = [n["name"] for n in sp["nodes"] if n["type"] == "Memory" and n["size"] != "inf"]
    spec = G.build_spec(sp)
    metrics = spec.mapper.metrics
    try:
        pm = M.make_pmappings(spec, print_progress=False)
    except Exception as e:  # noqa: BLE001
        if _no_mapping(e):
            col.case(desc, False, ["spec:no-pmappings"])
            return
        raise Violation(f"make_pmappings raised {type(e).__name__}: {str(e)[:300]}", key=f"crash-make:{type(e).__name__}")
    einsums = list(pm.einsum2pmappings.keys())
    if any(not pm.einsum2pmappings[e] for e in einsums):
        col.case(desc, False, ["spec:no-pmappings"])
        return
    k = K[min(3, max(2, len(einsums)))]
    rng = random.Random(desc["pick_seed"])   # deterministic function of the descriptor
    chosen = {}
    for e in einsums:
        rows = [(gi, ri) for gi, g in enumerate(pm.einsum2pmappings[e]) for ri in range(len(g.mappings.data))]
        rng.shuffle(rows)
        chosen[e] = sorted(rows[:k])
    # ---- the join under test: public staged join of the subset tables (every valid Einsum order) -------------
    orders = [einsums]
    if sp["shape"] == "diamond":
        orders.append([einsums[1], einsums[0], einsums[2]])
    fronts = []
    for order in orders:
        sub = _subset_pm(pm, chosen)
        sub.einsum2pmappings = {e: sub.einsum2pmappings[e] for e in order}
        try:
            res = M.join_pmappings(sub, metrics=metrics, print_progress=False)
            fronts.append(_front_of(res, with_usage, mems))
        except Exception as e:  # noqa: BLE001
            if _no_mapping(e):
                fronts.append([])
            else:
                import traceback
                raise Violation(f"join of the subset tables (order {order}) raised {type(e).__name__}: {str(e)[:300]}\n"
                                f"{traceback.format_exc(limit=5)}", key=f"crash-join:{type(e).__name__}")
    # ---- brute force over tuples with singleton joins, separately for every Einsum order (lifetimes, and
    # hence usage and capacity validity, depend on the execution order) --------------------------------------
    tuples = list(itertools.product(*[chosen[e] for e in einsums]))
    ref_fronts = []
    all_vecs = []
    n_rejected = n_fused = 0
    for order in orders:
        vecs = []
        for t in tuples:
            if col.over_budget():
                col.case(desc, False, ["budget:bruteforce-incomplete"])
                return
            single = _subset_pm(pm, {e: [t[i]] for i, e in enumerate(einsums)})
            single.einsum2pmappings = {e: single.einsum2pmappings[e] for e in order}
            try:
                r = JP.clean_compress_and_join_pmappings(pmappings=single, metrics=metrics, for_model=True, print_progress=False)
            except Exception as e:  # noqa: BLE001
                if _no_mapping(e):
                    n_rejected += 1
                    continue
                raise Violation(f"join of singleton tables {t} raised {type(e).__name__}: {str(e)[:300]}", key=f"crash-single:{type(e).__name__}")
            if len(r.data) == 0:
                n_rejected += 1
                continue
            vecs.extend(_front_of(r, with_usage, mems))
            comps = [pm.einsum2pmappings[e][t[i][0]].compatibility for i, e in enumerate(einsums)]
            # independent necessary condition for an accepted tuple: every tensor shared by two members has
            # the same backing memory, the same tile size and the same multiset of (rank, trip count) loops above it
            sigs = {}
            for i, e in enumerate(einsums):
                g = pm.einsum2pmappings[e][t[i][0]]
                row = g.mappings.data.iloc[t[i][1]]
                for tr in g.compatibility.tensors:
                    loops = sorted((str(l.rank_name), float(row[str(l.tile_pattern.calculated_n_iterations)])) for l in tr.loops)
                    size = float(row[f"tensor<SEP>{tr.name}"]) if f"tensor<SEP>{tr.name}" in row.index else None
                    sig = (str(tr.resource_name), loops, size)
                    if tr.name in sigs:
                        o = sigs[tr.name]
                        same_loops = len(o[1]) == len(loops) and all(a[0] == b[0] and close(a[1], b[1], rel=1e-6) for a, b in zip(o[1], loops))
                        same_size = o[2] is None or size is None or close(o[2], size, rel=1e-5, abs_=1e-9)
                        if o[0] != sig[0] or not same_loops or not same_size:
                            raise Violation(f"tuple {t} was joined although its members disagree on shared tensor {tr.name}: "
                                            f"{o} vs {sig}", key="agree:false-accept")
                    else:
                        sigs[tr.name] = sig
            if any(tr.resource_name != "Main" for c in comps for tr in c.tensors):
                n_fused += 1
        dist = sorted(set(vecs))
        keep = ref_pareto_mask(dist, ["min"] * len(dist[0])) if dist else []
        ref_fronts.append([v for v, kp in zip(dist, keep) if kp])
        all_vecs.append(dist)
    ref_front = ref_fronts[0]
    nontrivial = len(tuples) >= 4 and n_fused >= 1 and n_rejected >= 1
    col.case([sp, chosen], nontrivial,
             [f"shape:{sp['shape']}", f"metrics:{sp['mapper']['metrics']}", f"tuples:{'>=50' if len(tuples) >= 50 else '<50'}",
              "some_fused" if n_fused else "none_fused", "some_rejected" if n_rejected else "none_rejected",
              f"front:{min(len(ref_front), 5)}", f"orders:{len(orders)}"],
             sample={"shape": sp["shape"], "bounds": sp["bounds"], "mapper": sp["mapper"], "rows_per_einsum": {e: len(chosen[e]) for e in einsums},
                     "tuples": len(tuples), "rejected": n_rejected, "fused": n_fused, "reference_front": ref_front[:5]})
    # Fronts are compared by mutual weak coverage within the float32 tolerance, not by exact vector equality: equal usages
    # reach the tables once as float32 and once as float64 (0.054054055 vs 0.054054054), so an exact O(n^2) front keeps a
    # point that the joiner rightly treats as dominated.  lost = a reference-front point that no joined point covers;
    # extra = a joined point that is not the vector of any tuple, or that a reference-front point dominates exactly (<= in every objective, even in float32) and by more than the tolerance in one.
    def _covers(w, v):
        return len(w) == len(v) and all(x <= y * (1 + 1e-5) + 1e-9 for x, y in zip(w, v))

    for order, front, ref_front, dist in zip(orders, fronts, ref_fronts, all_vecs):
        lost = [v for v in ref_front if not any(_covers(w, v) for w in front)]
        extra = [v for v in front if not any(_same(v, w) for w in dist)
                 or any(all(x <= y for x, y in zip(w, v)) and any(x < y * (1 - 1e-4) - 1e-9 for x, y in zip(w, v)) for w in ref_front)]
        if lost or extra:
            raise Violation(f"join (order {order}) of {[len(chosen[e]) for e in einsums]} rows differs from the combination of all "
                            f"{len(tuples)} tuples: missing {lost[:4]}, extra {extra[:4]}; reference front {ref_front[:6]}, joined "
                            f"front {front[:6]}", key="join-differs:" + ("lost" if lost else "extra"))


N = {"quick": 32, "thorough": 320}
NSHARDS = 16
QUICK_BUDGET_S = 500


def shards(tier, seed):
    return [{"k": k, "n": max(1, N[tier] // NSHARDS), "seed": seed} for k in range(NSHARDS)]


def run_shard(shard, col):
    drive(cases(), check, n=shard["n"], seed=hash32(shard["seed"], "C13", shard["k"]), col=col, shrink=False)


def replay(desc, col):
    check(desc, col)

REGISTER = True
MUTANTS = [
    {"what": "merge_next no longer requires equal trip counts of the shared loops (calculated_n_iterations match skipped)", "caught": True,
     "how": "agree:false-accept (independent signature check) and join-differs:lost"},
    {"what": "lookahead filter requires ALL equivalent loop permutations to match the next Einsum (any -> all)", "caught": False,
     "note": "with one equivalent permutation per compatibility (the common case on these workloads) any == all; would need 3-Einsum specs with permutable fused loops"},
]
MANIFEST = {
    "level_text": "For real pmapping tables of generated 2-3 Einsum specs, restricted to a drawn subset of rows, the public join must return exactly the Pareto front of ALL tuples of one row per Einsum, where each tuple is decided (agree / capacity / combined metrics) by joining it alone; accepted tuples are additionally checked against an independent necessary condition for agreement (same backing memory, tile size and loop trip counts of every shared tensor). Exhaustive over the tuples of each drawn subset; specs and subsets are sampled. Not a proof.",
    "level_note": "Trusted primitive: the join of singleton tables (its metrics are checked against the model and the literal executor by C04/C05/C06). A defect in the agree predicate that affects singleton and multi-row joins alike is only caught by the independent necessary condition, not by the decomposition. Capacities never an exact fit (open finding C08).",
    "technique": "property-based testing: decomposition law (join of tables == Pareto of joins of all row tuples) with exhaustive tuple enumeration",
}
