"""C08 — tile-shape exploration prunes without losing any Pareto-optimal choice."""

import math

from hypothesis import strategies as st

from vf.core import Violation, close, drive, hash32
from vf.gen import spec as G

PROPERTY = "C08"
LEVEL = "exploration"
TOLERANCE = "rel 1e-5 per column (float32 tables)"
RULE = (
    "Hypothesis-generated small specs (1-2 Einsums: matmul/matvec/elementwise/chain2/elementwise2; bounds with several "
    "divisors; 2-3 memory levels, finite and infinite sizes; metrics ENERGY/LATENCY/EDP/ENERGY|LATENCY; max_fused_loops in "
    "{0,1,2,inf}, per-rank limit in {1,2}); for each drawn real pmapping template the repo's make_pmappings_from_templates is "
    "run twice: as is (pruned enumeration, prune threshold drawn from {1,8,64,1000}) and with get_tile_shape_choices replaced "
    "by an exhaustive enumerator of all perfectly factorising assignments filtered by the validity limits (harness-side, "
    "vf/instrument.py). The fronts (compatibility, fused-loop tile shapes, objective and reservation vector) after the "
    "table Pareto filter must weakly cover each other within rel 1e-5 (a one-ulp float32 difference between equal reservations can keep a redundant row on either side; exact vector equality is therefore not demanded). Non-trivial: >=12 valid assignments, the exhaustive table kept "
    ">=2 Pareto rows, and the pruned enumeration evaluated fewer assignments than exist. Distinct = distinct (spec, template)."
)
ASSUMPTIONS = [
    "validity of an assignment = every objective's max/min limit holds (memory usage <= 1, loop bounds, min usage with best-effort fallback) and every loop-count group has at most `limit` loops whose tile shape differs from the enclosing tile",
    "perfect factorisation; dense projections (templates with initial-tile-shape symbols are skipped and counted)",
    "both runs share accelforge's formula compilation and final table Pareto filter (checked separately by C07 and C11/C12)",
]


@st.composite
def cases(draw):
    sp = draw(G.specs(shapes=("matmul", "matmul", "matvec", "elementwise", "chain2", "chain2", "elementwise2"),
                      levels=(2, 2, 3), metrics=("ENERGY", "LATENCY", "ENERGY_DELAY_PRODUCT", "ENERGY|LATENCY"),
                      finite_tp=True, bound_pool=[2, 3, 4, 4, 6, 6, 8, 9, 12], max_ops=1500,
                      exact_sizes=draw(st.integers(0, 9)) == 0))
    if draw(st.booleans()):
        sp["mapper"]["max_fused_loops"] = draw(st.sampled_from([0, 1, 2, "inf"]))
    if draw(st.integers(0, 3)) == 0:
        sp["mapper"]["max_fused_loops_per_rank_variable"] = 2
    picks = draw(st.lists(st.integers(0, 10_000), min_size=10, max_size=16, unique=True))
    thr = draw(st.sampled_from([1, 8, 64, 1000]))
    return {"spec": sp, "picks": picks, "threshold": thr}


@st.composite
def spatial_cases(draw):
    """architectures with a spatial fanout between two memories, loop_bounds and min_usage"""
    wl = draw(G.workloads(shapes=("matmul", "matmul", "matvec", "chain2"), bound_pool=[2, 4, 4, 6, 8, 8, 12], max_ops=1200))
    bits = list(wl["bits"].values())[0]
    sizes = G.tensor_sizes(wl)
    big, tot = max(sizes.values()), sum(sizes.values())
    rvs = sorted(wl["bounds"])
    lbs = []
    for _ in range(draw(st.integers(0, 2))):
        op = draw(st.sampled_from(["<=", "<=", "==", ">=", "<", "product<="]))
        expr = draw(st.sampled_from(rvs)) if "product" not in op else " | ".join(draw(st.lists(st.sampled_from(rvs), min_size=1, max_size=2, unique=True)))
        lbs.append({"expression": expr, "operator": op, "value": draw(st.sampled_from([1, 2, 2, 3, 4]))})
    sp_x = {"name": "X", "fanout": draw(st.sampled_from([2, 4, 4])), "loop_bounds": lbs}
    if draw(st.integers(0, 3)) == 0:
        sp_x["min_usage"] = draw(st.sampled_from([0.5, 1.0]))
    glb_vals = draw(st.sampled_from(["inf", tot, max(2, tot // 2), big + 2]))
    reg_vals = draw(st.sampled_from(["inf", 3, 6, max(3, big // 2)]))
    fused = len(wl["einsums"]) > 1
    nodes = [{"type": "Memory", "name": "Main", "size": "inf", "keep": "~Intermediates" if fused else "All", "may_keep": "All",
              "read": [draw(st.sampled_from([4, 10])), "inf"], "write": [draw(st.sampled_from([4, 10])), "inf"], "leak": 0},
             {"type": "Memory", "name": "GLB", "size": "inf" if glb_vals == "inf" else glb_vals * bits + bits / 2,
              "keep": "~Main" if fused else "Nothing", "may_keep": "All", "read": [1, draw(st.sampled_from(["inf", 2]))],
              "write": [1, draw(st.sampled_from(["inf", 2]))], "leak": 0},
             {"type": "Container", "name": "PEs", "spatial": [sp_x]},
             {"type": "Memory", "name": "Reg", "size": "inf" if reg_vals == "inf" else reg_vals * bits + bits / 2,
              "keep": "Nothing", "may_keep": draw(st.sampled_from(["All", "All", "Outputs", "Inputs"])),
              "read": [0.5, "inf"], "write": [0.5, "inf"], "leak": 0},
             {"type": "Compute", "name": "MAC", "compute": [1, 1], "leak": 0}]
    sp = dict(wl)
    sp["nodes"] = nodes
    sp["mapper"] = {"metrics": draw(st.sampled_from(["ENERGY", "LATENCY", "ENERGY|LATENCY"]))}
    picks = draw(st.lists(st.integers(0, 10_000), min_size=8, max_size=12, unique=True))
    return {"spec": sp, "picks": picks, "threshold": draw(st.sampled_from([1, 8, 64, 1000])), "spatial": True}


def _vectors(groups):
    out = []
    for compat, df in groups:
        cols = sorted(c for c in df.columns if c.startswith(("Total<SEP>", "reservation<SEP>", "fused_loop<SEP>")))
        for _, row in df.iterrows():
            out.append((compat, tuple(cols), tuple(float(row[c]) for c in cols)))
    return out


def _match(a, b):
    if a[0] != b[0] or a[1] != b[1]:
        return False
    return all(close(x, y, rel=1e-5, abs_=1e-9) for x, y in zip(a[2], b[2]))


def _covers(a, b, strict=False):
    """a weakly dominates b (same group); strict: and is clearly better somewhere"""
    if a[0] != b[0] or a[1] != b[1]:
        return False
    better = False
    for c, x, y in zip(a[1], a[2], b[2]):
        if c.startswith("fused_loop<SEP>"):
            if not close(x, y, rel=1e-6, abs_=1e-9):
                return False
        else:
            if x > y * (1 + 1e-5) + 1e-9:
                return False
            if x < y * (1 - 1e-4) - 1e-9:
                better = True
    return better if strict else True


def check_template(job, idx, thr, col, desc):
    from vf import instrument as I

    info = I.ExhaustiveInfo()
    try:
        ex = I.run_template(job, exhaustive=True, info=info)
    except NotImplementedError:
        col.case([desc["spec"], idx], False, ["template:unsupported"])
        return
    with I.prune_threshold(thr) as active:
        jj_probe = None
        try:
            real = I.run_template(job)
        except Exception as e:  # noqa: BLE001
            import traceback
            raise Violation(f"pruned make_pmappings_from_templates raised {type(e).__name__}: {str(e)[:300]}\n"
                            f"{traceback.format_exc(limit=6)}", key=f"crash:{type(e).__name__}")
    va, vb = _vectors(real), _vectors(ex)
    nsym = len(info.symbols)
    nontrivial = info.n_valid >= 12 and len(vb) >= 2
    labels = [f"thr:{thr}" + ("" if active else ":inactive"), f"symbols:{min(nsym, 4)}",
              "valid>=20" if info.n_valid >= 20 else "valid<20", f"pareto_rows:{min(len(vb), 5)}",
              "some_invalid" if info.n_valid < info.n_all else "all_valid",
              "empty" if not vb else "nonempty", "has_exact_fit" if info.exact_fit else "no_exact_fit",
              "spatial_arch" if desc.get("spatial") else "memory_only_arch",
              "template_has_spatial_loop" if "S-" in job.mapping.compact_str() else "template_temporal_only"]
    col.case([desc["spec"], job.mapping.compact_str()], nontrivial, labels,
             sample={"template": job.mapping.compact_str(), "metrics": desc["spec"]["mapper"], "bounds": desc["spec"]["bounds"],
                     "n_assignments": info.n_all, "n_valid": info.n_valid, "pareto_rows_exhaustive": len(vb),
                     "pareto_rows_pruned": len(va), "threshold": thr})
    # Equality of the two fronts up to float32 noise: each front must weakly cover the other (same
    # compatibility and fused-loop tile shapes, every objective/reservation <= within rel 1e-5).  (Reservation values
    # of equal fractions can differ by one float32 ulp, which makes exact vector matching unsound.)
    lost = [v for v in vb if not any(_covers(w, v) for w in va)]
    extra = [v for v in va if not any(_covers(w, v) for w in vb)]
    if lost or extra:
        kind = "lost-pareto-point" if lost else "extra-point"
        if info.exact_fit:
            # some assignment of this template fills a limit exactly: accelforge evaluates usage in
            # float32 and may reject it (3/7+3/7+1/7 > 1) -- known finding, keyed separately
            kind += ":template-has-exact-fit"
        ex_ = (lost or extra)[0]
        raise Violation(
            f"template {idx} [{job.mapping.compact_str()}] threshold={thr}: pruned enumeration {kind}: "
            f"{len(lost)} exhaustive Pareto rows missing, {len(extra)} pruned rows not in the exhaustive front; "
            f"first: compat={ex_[0]} cols={ex_[1]} vals={ex_[2]}; n_valid={info.n_valid}",
            key=kind)


def check(desc, col):
    from vf import instrument as I

    spec = G.build_spec(desc["spec"])
    try:
        jobs = I.template_jobs(spec)
    except Exception as e:  # noqa: BLE001
        if "No pmappings" in str(e):
            col.case(desc["spec"], False, ["spec:no-templates"])
            return
        raise Violation(f"template generation raised {type(e).__name__}: {str(e)[:300]}", key=f"crash-templates:{type(e).__name__}")
    if not jobs:
        col.case(desc["spec"], False, ["spec:no-templates"])
        return
    # templates with more loops have more tile-shape symbols: draw from the richer half
    jobs = sorted(jobs, key=lambda j: (-sum(1 for n in j.mapping.nodes if type(n).__name__ in ("Temporal", "Spatial")),
                                       j.mapping.compact_str()))
    jobs = jobs[: max(1, (len(jobs) + 1) // 2)]
    seen = set()
    only = desc.get("only_template")
    for p in desc["picks"]:
        i = p % len(jobs)
        if i in seen or (only is not None and jobs[i].mapping.compact_str() != only):
            continue
        seen.add(i)
        if col.over_budget():
            return
        try:
            check_template(jobs[i], i, desc["threshold"], col, desc)
        except Violation as v:
            desc["only_template"] = jobs[i].mapping.compact_str()   # replay only the failing template
            raise


N = {"quick": 96, "thorough": 960}
NSHARDS = 16
QUICK_BUDGET_S = 420


def shards(tier, seed):
    return [{"k": k, "n": max(1, N[tier] // NSHARDS), "seed": seed} for k in range(NSHARDS)]


def run_shard(shard, col):
    drive(cases(), check, n=shard["n"], seed=hash32(shard["seed"], "C08", shard["k"]), col=col)
    drive(spatial_cases(), check, n=max(1, shard["n"] // 2), seed=hash32(shard["seed"], "C08s", shard["k"]), col=col)


def replay(desc, col):
    check(desc, col)

REGISTER = True
MUTANTS = [
    {"what": "_try_replace_single_term: always-increasing term mapped to Goal('max') and decreasing to Goal('min')", "caught": True},
    {"what": "unfixed float32 exact-fit rounding (known finding)", "caught": True, "note": "reported as KNOWN-FINDING, keyed separately"},
]
MANIFEST = {
    "level_text": "Differential testing of the repo's pruned tile-shape enumeration against an exhaustive enumeration of every perfectly factorising assignment, template by template, on the real templates of generated specs, with the prune threshold lowered so that sign analysis, padding and goal coalescing run on small inputs; after the table Pareto filter both must contain the same (compatibility, fused-loop tile shape, objective, reservation) vectors. No counterexample in N templates; not a proof.",
    "level_note": "Trusted: the exhaustive enumerator and validity definition in vf/instrument.py; both sides share accelforge's formula compilation and final makepareto (covered by C07, C11, C12). Perfect factorisation and dense projections only; spatial fanouts/loop bounds not generated yet. Open known finding: exact-fit capacities (float32 rounding).",
    "technique": "property-based differential testing: pruned vs exhaustive enumeration (Hypothesis)",
}
