"""C27 — recomputing component costs on a costed spec changes nothing (call-history property).

History (the replay descriptor is {"history": [...]})::

    [{"op": "init", "tree": <archtree descriptor with cost fields>, "workload": 0|1|2},
     {"op": "recost", "flags": {"area": b, "energy": b, "throughput": b, "leak": b}, "einsum": null|"Z"|"Y"},
     ... up to 3 recost calls, each applied to the spec returned by the previous call]
"""

from hypothesis import strategies as st
from hypothesis.stateful import RuleBasedStateMachine, initialize, precondition, rule

from vf.core import Violation, close, drive_machine, must, hash32
from vf.gen.archtree import ACTIONS, trees, build_spec
from vf.ref import archtree as R

PROPERTY = "C27"
LEVEL = "exploration"
RULE = (
    "Hypothesis RuleBasedStateMachine. initialize: an architecture tree (C25's generator, depth <= 3, <= 3 computes, "
    "no trailing leaves) whose Memories/Tolls/Computes carry exact-binary area, leak power, per-action energy and "
    "throughput, component-level area/leak/energy/throughput scales, action-level energy/throughput scales (values "
    "1, 2, 0.5, 3, 0.25, 1.5, 4) and n_parallel_instances 1-4, with 0-2 Einsums in the workload. rule recost(area, "
    "energy, throughput, leak flags, einsum_name): Spec.calculate_component_costs on the spec returned by the "
    "previous call, 1-3 times. After every call, every quantity that has been computed so far must equal the closed "
    "form base x scales (x n_parallel_instances) -- which is also its value after the call that first computed it. "
    "Non-trivial: >= 2 calls and some scale or n_parallel_instances != 1. Distinct = distinct history."
)
ASSUMPTIONS = [
    "closed forms from the field documentation: area = area x area_scale x n_parallel_instances; leak likewise with "
    "leak_power_scale; energy(action) = energy x component.energy_scale x action.energy_scale; throughput(action) = "
    "throughput x component.throughput_scale x action.throughput_scale x n_parallel_instances",
    "all costs are given explicitly, hwcomponents models are switched off (config.component_models=[], "
    "use_installed_component_models=False) as component_energy_area.rst describes",
    "quantities whose flag has never been True are not asserted",
]
TOLERANCE = "rel 1e-9 (all values are exact binary fractions)"

KEY_REAPPLY = "recost-reapplies-scales"
QUANT = ("area", "energy", "throughput", "leak")
WORKLOADS = {
    0: None,
    1: {"einsums": ["Z[m, n] = A[m, k] * B[k, n]"], "rank_sizes": {"M": 4, "N": 4, "K": 4}, "bits_per_value": {"All": 8}},
    2: {"einsums": ["Z[m, n] = A[m, k] * B[k, n]", "Y[m, j] = Z[m, n] * C[n, j]"],
        "rank_sizes": {"M": 4, "N": 4, "K": 4, "J": 2}, "bits_per_value": {"All": 8}},
}
EINSUMS = {0: [None], 1: [None, "Z"], 2: [None, "Z", "Y"]}


def _components(tree):
    out = []

    def rec(nodes):
        for n in nodes:
            if n["t"] in R.BRANCH:
                rec(n["nodes"])
            elif n["t"] != "Container":
                out.append(n)

    rec(tree["nodes"])
    return out


def factor(n, q, action=None):
    """closed-form multiplier of quantity q of component descriptor n"""
    npar = n.get("n_parallel_instances", 1)
    if q == "area":
        return n.get("area_scale", 1) * npar
    if q == "leak":
        return n.get("leak_power_scale", 1) * npar
    a = n["actions"][action]
    if q == "energy":
        return n.get("energy_scale", 1) * a.get("energy_scale", 1)
    return n.get("throughput_scale", 1) * a.get("throughput_scale", 1) * npar


def quantities(comps):
    """[(component, quantity, action|None, base, factor)]"""
    out = []
    for n in comps:
        out.append((n, "area", None, n["area"], factor(n, "area")))
        out.append((n, "leak", None, n["leak"], factor(n, "leak")))
        for a in ACTIONS[n["t"]]:
            out.append((n, "energy", a, n["actions"][a]["energy"], factor(n, "energy", a)))
            out.append((n, "throughput", a, n["actions"][a]["throughput"], factor(n, "throughput", a)))
    return out


class Session:
    """Plain (Hypothesis-free) executor of a history; used by the state machine and by replay."""

    def __init__(self, tree, workload):
        from accelforge.frontend.workload import Workload

        self.tree = tree
        self.comps = _components(tree)
        wl = WORKLOADS[workload]
        self.spec = must(build_spec, tree, Workload(**wl) if wl else None, what="Spec(arch=..., workload=...)")
        self.times = {q: 0 for q in QUANT}   # how many calls so far had the flag set
        self.n_calls = 0

    # one call -------------------------------------------------------------------------------
    def recost(self, flags, einsum, known_keys=()):
        self.n_calls += 1
        kw = {q: bool(flags[q]) for q in QUANT}
        self.spec = must(self.spec.calculate_component_costs, einsum_name=einsum, what=f"calculate_component_costs (call {self.n_calls})", **kw)
        for q in QUANT:
            self.times[q] += kw[q]
        unexplained, reapplied = [], []
        for n, q, a, base, f in quantities(self.comps):
            if self.times[q] == 0:
                continue
            node = self.spec.arch.find(n["name"])
            if q == "area":
                got = node.area
            elif q == "leak":
                got = node.leak_power
            else:
                got = getattr(node.actions[a], q)
            want = base * f
            where = f"{n['name']}.{q}" + (f"[{a}]" if a else "")
            if got is None:
                unexplained.append((f"{where} is None after call {self.n_calls}", "value-missing"))
                continue
            if close(float(got), want, rel=1e-9):
                continue
            msg = (f"{where} = {float(got):g} after call {self.n_calls} (flags so far set {self.times[q]}x for {q}); "
                   f"closed form = base {base:g} x scales{' x n_parallel' if q != 'energy' else ''} {f:g} = {want:g}")
            if self.times[q] >= 2 and f != 1 and close(float(got), base * f ** self.times[q], rel=1e-9):
                reapplied.append((msg + f"  [= base x factor^{self.times[q]}: the scales were applied again to the already "
                                        f"computed value]", KEY_REAPPLY))
            elif self.times[q] == 1:
                unexplained.append((msg, f"closed-form:{q}"))
            else:
                unexplained.append((msg, f"recost-changed:{q}"))
        cands = unexplained + reapplied
        cands.sort(key=lambda mk: mk[1] in known_keys)   # stable: unexplained first, known keys last
        if cands:
            raise Violation(cands[0][0], key=cands[0][1])


def labels_of(history):
    init = history[0]
    calls = [h for h in history if h["op"] == "recost"]
    comps = _components(init["tree"])
    labs = [f"history:{len(calls)}", f"workload-einsums:{init['workload']}"]
    if any(n.get(k, 1) != 1 for n in comps for k in ("area_scale", "leak_power_scale", "energy_scale", "throughput_scale")):
        labs.append("component-scale!=1")
    if any(a.get(k, 1) != 1 for n in comps for a in n["actions"].values() for k in ("energy_scale", "throughput_scale")):
        labs.append("action-scale!=1")
    if any(n.get("n_parallel_instances", 1) != 1 for n in comps):
        labs.append("n_parallel_instances!=1")
    for c in calls:
        fl = c["flags"]
        labs.append("flags:all" if all(fl.values()) else ("flags:none" if not any(fl.values()) else "flags:partial"))
        labs.append("einsum_name:" + ("None" if c["einsum"] is None else "given"))
    for q in QUANT:
        if sum(1 for c in calls if c["flags"][q]) >= 2:
            labs.append(f"{q}-requested>=2x")
    if len(_components(init["tree"])) != len(R.walk(init["tree"])["order"]):
        labs.append("has-container")
    if any(R.walk(init["tree"])["in_fork"].values()):
        labs.append("has-fork")
    return sorted(set(labs))


def classify(history, col):
    if not history:
        return
    init = history[0]
    calls = [h for h in history if h["op"] == "recost"]
    sess_factor = any(f != 1 for *_, f in quantities(_components(init["tree"])))
    twice = any(sum(1 for c in calls if c["flags"][q]) >= 2 for q in QUANT)
    col.case(history, len(calls) >= 2 and sess_factor and twice, labels_of(history),
             sample={"history": [h if h["op"] == "recost" else {"op": "init", "workload": h["workload"],
                                                                 "components": _components(h["tree"])[:3]} for h in history]})


SUPPRESS: set = set()   # keys already recorded in this worker (drive() does the same for non-stateful checks)

FLAGS = st.one_of(
    st.just({q: True for q in QUANT}),                                           # the default call
    st.fixed_dictionaries({q: st.booleans() for q in QUANT}),                    # any subset
    st.sampled_from(QUANT).map(lambda one: {q: q == one for q in QUANT}),        # one quantity at a time
)


class CostMachine(RuleBasedStateMachine):
    def __init__(self):
        super().__init__()
        self.history = []
        self.sess = None
        self.dead = False

    @initialize(tree=trees(costs="scaled", trailing=False, max_depth=3, max_computes=3),
                workload=st.sampled_from([0, 1, 1, 2]))
    def init(self, tree, workload):
        self.history.append({"op": "init", "tree": tree, "workload": workload})
        self.sess = Session(tree, workload)

    @precondition(lambda self: self.sess is not None and not self.dead and self.sess.n_calls < 3)
    @rule(flags=FLAGS, pick=st.integers(0, 2))
    def recost(self, flags, pick):
        names = EINSUMS[self.history[0]["workload"]]
        einsum = names[pick % len(names)]
        self.history.append({"op": "recost", "flags": dict(flags), "einsum": einsum})
        try:
            self.sess.recost(flags, einsum, known_keys=self.col.known_keys | SUPPRESS)
        except Violation as v:
            # drive_machine stops the whole run at the first Violation, also for open known findings;
            # count those here instead so that the search goes on past a known defect.
            if v.key in self.col.known_keys:
                self.col.excluded_known += 1
                self.col.excluded_keys[v.key] += 1
                self.dead = True
                return
            if v.key in SUPPRESS:
                self.col.labels["repeat_failure:" + v.key] += 1
                self.dead = True
                return
            raise

    @precondition(lambda self: self.sess is not None and (self.dead or self.sess.n_calls >= 3))
    @rule()
    def idle(self):
        """nothing left to do (Hypothesis insists on an applicable rule at every step)"""

    def teardown(self):
        classify(self.history, self.col)


N = {"quick": 360, "thorough": 3600}
NSHARDS = {"quick": 6, "thorough": 16}


def shards(tier, seed):
    return [{"k": k, "n": N[tier] // NSHARDS[tier], "seed": seed} for k in range(NSHARDS[tier])]


def run_shard(shard, col):
    for attempt in range(3):   # like drive(): go on after a new key has been recorded
        before = len(col.failures)
        drive_machine(CostMachine, n=shard["n"], steps=4, seed=hash32(shard["seed"], "C27", shard["k"], attempt), col=col)
        if len(col.failures) == before:
            break
        SUPPRESS.add(col.failures[-1]["key"])


def replay(desc, col):
    history = desc["history"]
    classify(history, col)
    sess = None
    for h in history:
        if h["op"] == "init":
            sess = Session(h["tree"], h["workload"])
        else:
            sess.recost(h["flags"], h["einsum"])


# Scratch worktree = HEAD + regress/C27/suggested_fix.diff (the unchanged tree already fails with
# recost-reapplies-scales); quick tier, seed 1; all caught (exit 1).
MUTANTS = [
    {"what": "suggested fix left out for leak power (scales re-applied to leak only)", "caught": True,
     "keys": ["recost-reapplies-scales"]},
    {"what": "suggested fix left out for throughput", "caught": True, "keys": ["recost-reapplies-scales"]},
    {"what": "components.calculate_area ignores n_parallel_instances", "caught": True, "keys": ["closed-form:area"]},
    {"what": "components.calculate_action_energy ignores action.energy_scale", "caught": True, "keys": ["closed-form:energy"]},
    {"what": "components.calculate_action_throughput divides by n_parallel_instances", "caught": True,
     "keys": ["closed-form:throughput"]},
    {"what": "components.calculate_leak_power uses area_scale instead of leak_power_scale", "caught": True,
     "keys": ["closed-form:leak"]},
    {"what": "unchanged tree (the genuine defect): second call multiplies the stored results by the scales again",
     "caught": True, "keys": ["recost-reapplies-scales"]},
]

REGISTER = True
MANIFEST = {
    "level_text": "Random exploration of call histories: a Hypothesis state machine builds an architecture with random "
                  "costs, scale factors and n_parallel_instances and calls Spec.calculate_component_costs 1-3 times "
                  "(random area/energy/throughput/leak flags and einsum_name), each time on the spec returned by the "
                  "previous call; after every call all computed quantities are compared with their closed form. "
                  "Nothing is claimed beyond the sampled histories.",
    "level_note": "Trusted: the closed forms taken from the field documentation of Component/Action. Histories are "
                  "limited to 3 calls; only explicit costs (no hwcomponents models).",
    "technique": "stateful property-based testing (Hypothesis RuleBasedStateMachine)",
}
