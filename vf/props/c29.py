"""C29 -- renames resolve with per-Einsum entries overriding defaults.

Random cascades of 2-4 Einsums with three rename tables:
  * top-level ``renames.einsums`` entry named ``default`` (tensor_accesses + rank_variables),
  * top-level entries named after an Einsum (the documented per-Einsum form),
  * the Einsum's own ``renames`` attribute,
each in dict form ``{new_name: source}`` or list form ``[{name, source, expected_count}]``
with right and wrong ``expected_count`` (int or ``len(Set) + k`` expression).
Oracle: for Einsum e and name x the source is the Einsum-local entry if present, else the
top-level entry under e, else the default; sources evaluated by vf/ref/setalg.py.  A wrong
expected_count anywhere => EvaluationError.
"""

from hypothesis import strategies as st

from vf.core import Violation, drive, must, hash32
from vf.gen.workloads import workloads, einsum_dicts
from vf.ref import setalg as R

PROPERTY = "C29"
LEVEL = "exploration"
RULE = (
    "Hypothesis: cascade of 2-4 Einsums; default table (0-3 tensor + 0-2 rank-variable renames, later entries may use "
    "earlier ones, e.g. weight: ~(input | output)), per-Einsum top-level tables and Einsum-local tables that override "
    "some default names and add new ones; dict and list form; expected_count absent / right / wrong. For every Einsum "
    "and every visible name the evaluated source is compared with the reference resolution local > top-level[e] > "
    "default (and names not visible for an Einsum must be absent); additionally a Memory's tensors.keep names a default "
    "rename and is evaluated per Einsum. Non-trivial: for some Einsum a name is defined under default and under that "
    "Einsum (top-level or local) with a different source, or only under that Einsum. Distinct = distinct descriptor."
)
ASSUMPTIONS = [
    "only default entries reference other rename names, and only earlier default names (evaluation order between tables is "
    "not documented); per-Einsum and local sources use the named base sets and the Einsum's own tensors / rank variables",
    "default rank-variable sources use the rank variable m (present in every generated Einsum), X.rank_variables and earlier "
    "default rank renames, so they are defined for every Einsum",
    "a name is used in one space only (tensor renames and rank-variable renames have disjoint name pools)",
    "a mismatching expected_count must surface as accelforge.util.exceptions.EvaluationError",
]

KNOWN_TOP = "toplevel-per-einsum-renames-ignored"
TN = ["input", "weight", "output", "aux"]
RN = ["red", "par", "spat"]
TBASE = ["All", "Inputs", "Outputs", "Intermediates", "Shared", "Persistent", "Nothing"]


@st.composite
def ttree(draw, leaves, depth):
    if depth <= 0 or draw(st.integers(0, 3)) == 0:
        return ["name", draw(st.sampled_from(leaves))]
    op = draw(st.sampled_from(["not", "and", "or", "sub", "xor"]))
    if op == "not":
        return ["not", draw(ttree(leaves, depth - 1))]
    return [op, draw(ttree(leaves, depth - 1)), draw(ttree(leaves, depth - 1))]


@st.composite
def rtree(draw, rleaves, tleaves, depth):
    k = draw(st.integers(0, 5))
    if depth <= 0 or k <= 1:
        if rleaves and (k == 0 or draw(st.booleans())):
            return ["name", draw(st.sampled_from(rleaves))]
        return ["rv", draw(ttree(tleaves, 1))]
    if k == 2:
        return ["not", draw(rtree(rleaves, tleaves, depth - 1))]
    return [draw(st.sampled_from(["and", "or", "sub"])), draw(rtree(rleaves, tleaves, depth - 1)),
            draw(rtree(rleaves, tleaves, depth - 1))]


# expected_count placeholder kinds; a default entry with an int count is only right if every Einsum agrees, so the
# default table leans on len(Set)+k expressions and on no count at all
EC_CHOICES = ["none"] * 3 + ["right"] * 3 + ["len", "wrong"]
EC_DEFAULT = ["none"] * 5 + ["right"] * 2 + ["len"] * 2 + ["wrong"]


@st.composite
def cases(draw):
    wl = draw(workloads(2, 4))
    names = [e["name"] for e in wl["einsums"]]
    dform = draw(st.sampled_from(["dict", "list", "list"]))
    dt, dr = [], []
    for nm in draw(st.lists(st.sampled_from(TN), max_size=3, unique=True)):
        dt.append([nm, draw(ttree(TBASE + [x[0] for x in dt], draw(st.integers(0, 3)))), draw(st.sampled_from(EC_DEFAULT))])
    for nm in draw(st.lists(st.sampled_from(RN), max_size=2, unique=True)):
        dr.append([nm, draw(rtree(["m"] + [x[0] for x in dr], TBASE + [x[0] for x in dt], 2)), draw(st.sampled_from(EC_DEFAULT))])
    default = {"form": dform, "tensor": dt, "rank": dr}

    def table(e, split):
        own_t = TBASE + R.tensors_of(e)
        own_r = sorted(R.rank_vars_of(wl, e))
        pref_t = [x[0] for x in dt] * 2 + TN
        pref_r = [x[0] for x in dr] * 2 + RN
        t = [[nm, draw(ttree(own_t, draw(st.integers(0, 2)))), draw(st.sampled_from(EC_CHOICES))]
             for nm in draw(st.lists(st.sampled_from(pref_t), max_size=2, unique=True))]
        r = [[nm, draw(rtree(own_r, own_t, 1)), draw(st.sampled_from(EC_CHOICES))]
             for nm in draw(st.lists(st.sampled_from(pref_r), max_size=1, unique=True))]
        form = draw(st.sampled_from(["dict", "list"]))
        return {"form": form, "tensor": t, "rank": r} if split else {"form": form, "items": t + r}

    use_top = draw(st.integers(0, 9)) < 5
    top, local = {}, {}
    for e in wl["einsums"]:
        if use_top and draw(st.integers(0, 2)) > 0:
            tb = table(e, True)
            if tb["tensor"] or tb["rank"]:
                top[e["name"]] = tb
        if draw(st.integers(0, 2)) == 0:
            tb = table(e, False)
            if tb["items"]:
                local[e["name"]] = tb
    order = draw(st.permutations(["default"] + sorted(top)))
    desc = {"wl": wl, "default": default, "top": top, "local": local, "order": list(order),
            "arch_name": draw(st.sampled_from([x[0] for x in dt])) if dt else None}
    # resolve expected_count placeholders with the reference (right = size in one Einsum)
    tables = _tables(desc, True, ignore_ec=True)

    def fix(entry, einsums):
        nm, tr, ec = entry
        en = draw(st.sampled_from(einsums))
        size = len(tables[en][nm][1]) if nm in tables[en] else 0
        if ec == "none":
            entry[2] = None
        elif ec == "right":
            entry[2] = ["int", size]
        elif ec == "wrong":
            entry[2] = ["int", size + draw(st.sampled_from([1, 1, 2])) if size == 0 or draw(st.booleans()) else size - 1]
        else:
            s = draw(st.sampled_from(["All", "Inputs", "Outputs"]))
            entry[2] = ["len", s, size - len(R.base_env(wl, en)[s][1])]

    for tb, einsums in [(default, names)] + [(top[e], [e]) for e in top] + [(local[e], [e]) for e in local]:
        for entry in tb.get("tensor", []) + tb.get("rank", []) + tb.get("items", []):
            fix(entry, einsums)
            if tb["form"] == "dict":
                entry[2] = None
    return desc


# ---------------------------------------------------------------------------------------
# reference
# ---------------------------------------------------------------------------------------

def _visible(desc, en, use_top):
    """name -> (tree, ec, origin) by precedence local > top-level[en] > default."""
    out = {}
    d = desc["default"]
    for nm, tr, ec in d["tensor"] + d["rank"]:
        out[nm] = (tr, ec, "default")
    if use_top and en in desc["top"]:
        for nm, tr, ec in desc["top"][en]["tensor"] + desc["top"][en]["rank"]:
            out[nm] = (tr, ec, "top")
    if en in desc["local"]:
        for nm, tr, ec in desc["local"][en]["items"]:
            out[nm] = (tr, ec, "local")
    return out


def _tables(desc, use_top, ignore_ec=False):
    """-> {einsum: {name: (space, frozenset)}}; raises _Mismatch on a wrong expected_count."""
    wl = desc["wl"]
    res = {}
    for e in wl["einsums"]:
        en = e["name"]
        vis = _visible(desc, en, use_top)
        env = R.base_env(wl, en)
        uni = R.universes(wl, en)
        done = {}

        def value(nm):
            if nm not in done:
                tr = vis[nm][0]
                for dep in R.names_of(tr):
                    if dep in vis and dep not in env:
                        env[dep] = value(dep)
                done[nm] = R.eval_tree(tr, env, uni, wl)
                env[nm] = done[nm]
            return done[nm]

        for nm in vis:
            value(nm)
        if not ignore_ec:
            for nm, (tr, ec, origin) in vis.items():
                if ec is None:
                    continue
                want = ec[1] if ec[0] == "int" else len(env[ec[1]][1]) + ec[2]
                if want != len(done[nm][1]):
                    raise _Mismatch(f"{en}.{nm} ({origin}): expected_count {want} but the source has {len(done[nm][1])} elements")
        res[en] = done
    return res


class _Mismatch(Exception):
    pass


def _outcome(desc, use_top):
    try:
        t = _tables(desc, use_top)
    except _Mismatch as m:
        return ("error", str(m))
    return ("ok", {en: {nm: v[1] for nm, v in tab.items()} for en, tab in t.items()})


# ---------------------------------------------------------------------------------------
# building
# ---------------------------------------------------------------------------------------

def _ec(ec):
    if ec is None:
        return None
    if ec[0] == "int":
        return ec[1]
    return f"len({ec[1]}) + {ec[2]}" if ec[2] >= 0 else f"len({ec[1]}) - {-ec[2]}"


def _tab(form, entries):
    if form == "dict":
        return {nm: R.render(tr, "min") for nm, tr, _ in entries}
    out = []
    for nm, tr, ec in entries:
        d = {"name": nm, "source": R.render(tr, "min")}
        if ec is not None:
            d["expected_count"] = _ec(ec)
        out.append(d)
    return out


def _build(desc):
    from accelforge.frontend.spec import Spec
    from accelforge.frontend.workload import Workload
    from accelforge.frontend.renames import Renames
    import accelforge.frontend.arch as A

    wl = desc["wl"]
    local = {en: _tab(tb["form"], tb["items"]) for en, tb in desc["local"].items()}
    workload = Workload(einsums=einsum_dicts(wl, local), bits_per_value={"All": 8})
    ents = []
    for nm in desc["order"]:
        tb = desc["default"] if nm == "default" else desc["top"][nm]
        if nm == "default" and not (tb["tensor"] or tb["rank"]):
            continue
        d = {"name": nm}
        if tb["tensor"]:
            d["tensor_accesses"] = _tab(tb["form"], tb["tensor"])
        if tb["rank"]:
            d["rank_variables"] = _tab(tb["form"], tb["rank"])
        ents.append(d)
    keep = desc["arch_name"] or "All"
    arch = A.Arch(nodes=[A.Memory(name="MainMem", size=1, tensors={"keep": keep}), A.Compute(name="mac")])
    return Spec(workload=workload, arch=arch, renames=Renames(einsums=ents))


def _inst(x):
    from accelforge.util._setexpressions import InvertibleSet

    return frozenset(x.instance) if isinstance(x, InvertibleSet) else None


def _actual(desc, spec):
    """-> ("error", msg) | ("ok", {einsum: {name: frozenset | None(not a set)}}, {einsum: keep})"""
    from accelforge.util.exceptions import EvaluationError

    wl = desc["wl"]
    all_names = set(TN) | set(RN)
    tabs, keeps = {}, {}
    for e in wl["einsums"]:
        en = e["name"]
        try:
            ev = spec._spec_eval_expressions(einsum_name=en)
        except EvaluationError as ex:
            return ("error", str(ex)[:300]), None
        es = ev.workload.einsums[en]
        tabs[en] = {r.name: _inst(r.source) for r in es.renames if r.name in all_names}
        keeps[en] = _inst(ev.arch.find("MainMem").tensors.keep)
    return ("ok", tabs), keeps


def _describe(desc):
    d = desc["default"]
    show = lambda entries: [(nm, R.render(tr, "min"), _ec(ec)) for nm, tr, ec in entries]  # noqa: E731
    return (f"einsums={[(e['name'], e['inputs'], e['output']) for e in desc['wl']['einsums']]} "
            f"default={show(d['tensor'] + d['rank'])} "
            f"top-level={ {en: show(tb['tensor'] + tb['rank']) for en, tb in desc['top'].items()} } "
            f"local={ {en: show(tb['items']) for en, tb in desc['local'].items()} }")


def check(desc, col):
    wl = desc["wl"]
    names = [e["name"] for e in wl["einsums"]]
    exp = _outcome(desc, True)
    bug = _outcome(desc, False)

    # ---- classification
    labels = [f"einsums:{len(names)}", f"expected:{exp[0]}", f"default-form:{desc['default']['form']}"]
    nontrivial = False
    dnames = {x[0]: x[1] for x in desc["default"]["tensor"] + desc["default"]["rank"]}
    for en in names:
        topn = {x[0]: x[1] for x in (desc["top"].get(en, {}).get("tensor", []) + desc["top"].get(en, {}).get("rank", []))}
        locn = {x[0]: x[1] for x in desc["local"].get(en, {}).get("items", [])}
        for nm, tr in topn.items():
            if nm in dnames:
                labels.append("top-overrides-default" + (":same-source" if tr == dnames[nm] else ""))
                nontrivial |= tr != dnames[nm]
            else:
                labels.append("only-under-einsum:top")
                nontrivial = True
        for nm, tr in locn.items():
            if nm in topn:
                labels.append("local-overrides-top")
            if nm in dnames:
                labels.append("local-overrides-default" + (":same-source" if tr == dnames[nm] else ""))
                nontrivial |= tr != dnames[nm]
            elif nm not in topn:
                labels.append("only-under-einsum:local")
                nontrivial = True
    if desc["top"]:
        labels.append("has:top-level-per-einsum")
    tables = [desc["default"]] + list(desc["top"].values()) + list(desc["local"].values())
    for tb in tables:
        ents = tb.get("tensor", []) + tb.get("rank", []) + tb.get("items", [])
        if ents:
            labels.append(f"form:{tb['form']}")
        for nm, tr, ec in ents:
            labels.append("space:rank" if nm in RN else "space:tensor")
            if ec is not None:
                labels.append("ec:" + ec[0])
            if R.names_of(tr) & (set(TN) | set(RN)):
                labels.append("source-uses-rename-name")
    if exp[0] == "error":
        labels.append("ec:wrong-somewhere")
    if exp != bug:
        labels.append("top-level-entries-matter")
    col.case(desc, nontrivial, labels, sample={"tables": _describe(desc), "expected": exp[0]})

    spec = must(_build, desc, what="building the spec")
    act, keeps = must(_actual, desc, spec, what="_spec_eval_expressions")

    def same(a, b):
        if a[0] != b[0]:
            return False
        return a[0] == "error" or a[1] == b[1]

    if not same(act, exp):
        if desc["top"] and same(act, bug):
            raise Violation(
                "top-level renames entries named after an Einsum are ignored (Einsum._eval_expressions asks only for "
                f"get_renames_for_einsum('default')): {_describe(desc)}; expected {_fmt(exp)}, got {_fmt(act)}", key=KNOWN_TOP)
        if exp[0] == "error" and act[0] == "ok":
            raise Violation(f"a mismatching expected_count was accepted: {exp[1]}; {_describe(desc)}", key="wrong-expected_count-accepted")
        if exp[0] == "ok" and act[0] == "error":
            raise Violation(f"valid renames rejected: {act[1]}; {_describe(desc)}", key="valid-renames-rejected")
        for en in names:
            for nm in sorted(set(exp[1][en]) | set(act[1][en])):
                w, g = exp[1][en].get(nm, "absent"), act[1][en].get(nm, "absent")
                if w != g:
                    origin = _visible(desc, en, True).get(nm, (None, None, "none"))[2]
                    fm = lambda v: v if isinstance(v, str) or v is None else sorted(v)  # noqa: E731
                    raise Violation(f"Einsum {en} rename {nm} (defined by: {origin}) = {fm(g)}, expected {fm(w)}; {_describe(desc)}",
                                    key=f"wrong-source:{origin}")
    if act[0] == "ok" and desc["arch_name"]:
        for en in names:
            want = exp[1][en][desc["arch_name"]] if exp[0] == "ok" else None
            if exp[0] == "ok" and keeps[en] != want:
                raise Violation(f"MainMem.tensors.keep = '{desc['arch_name']}' for Einsum {en} is {keeps[en]}, the rename is {sorted(want)}",
                                key="arch-sees-other-rename")


def _fmt(o):
    if o[0] == "error":
        return f"error({o[1][:120]})"
    return {en: {nm: (sorted(v) if v is not None else None) for nm, v in t.items()} for en, t in o[1].items()}


N = {"quick": 480, "thorough": 4800}
NSHARDS = 6


def shards(tier, seed):
    return [{"k": k, "n": N[tier] // NSHARDS, "seed": seed} for k in range(NSHARDS)]


def run_shard(shard, col):
    drive(cases(), check, n=shard["n"], seed=hash32(shard["seed"], "C29", shard["k"]), col=col)


def replay(desc, col):
    check(desc, col)


MUTANTS = [
    {"what": "Einsum._eval_expressions: default tensor renames appended even when the Einsum defines the name", "caught": True,
     "how": "wrong-source:local, wrong-expected_count-accepted"},
    {"what": "Rename._eval_expressions: expected_count check != replaced by >", "caught": True, "how": "wrong-expected_count-accepted"},
    {"what": "Einsum._eval_expressions: default rank_variables renames dropped", "caught": True, "how": "wrong-source:default"},
    {"what": "Einsum._eval_expressions: default entry replaces the Einsum-local entry of the same name", "caught": True, "how": "wrong-source:local"},
    {"what": "RenameList: evaluated rename not published to later renames", "caught": True, "how": "valid-renames-rejected"},
    {"what": "(candidate FIX) get_renames_for_einsum looks the Einsum up by name + Einsum._eval_expressions asks for self.name",
     "caught": False, "how": "not a bug: with this 3-line fix the check is green with 0 tolerated findings, i.e. the oracle is satisfiable"},
]

REGISTER = True
MANIFEST = {
    "level_text": "Randomised exploration (Hypothesis, 480 / 4800 workloads with three rename tables per run): for every Einsum and every rename name the evaluated source must equal the reference resolution Einsum-local > top-level entry under the Einsum > default; names not visible for an Einsum must be absent; a mismatching expected_count anywhere must raise EvaluationError.",
    "level_note": "Trusted: vf/ref/setalg.py and the 30-line resolution in c29._tables. Open finding tolerated by key: top-level entries named after an Einsum are never applied (half of the cases contain such entries; they are compared with both the documented and the 'entries ignored' outcome, anything else is a new violation). Only default entries reference other rename names. 5/5 bug mutants caught.",
    "technique": "property-based testing against a reference name-resolution model",
}
