"""C31 — Toll components pass data through without storing it."""

from hypothesis import strategies as st

from vf.core import Violation, close, drive, hash32, must
from vf.gen import mapping as GM
from vf.gen import spec as G
from vf.ref import looptree_exec as RX
from vf.props import c05

PROPERTY = "C31"
LEVEL = "exploration"
TOLERANCE = "rel 1e-6"
RULE = (
    "Part A (concrete mappings): C05's generator on [Main, Toll, GLB, (Reg,) MAC] and [Main, GLB, Toll, MAC] with per-tensor "
    "direction dicts over up/down/up_and_down, Toll mapping nodes at random depths between the two holders, values_per_action "
    "on the Toll; evaluate_mapping vs the literal executor with Toll accounting: Toll write actions == 0, no usage/reservation "
    "column for the Toll is non-zero, Toll reads == values crossing in a configured direction / values per action, and all "
    "other counts/energy/latency as in C05. Part B (mapper): 2-Einsum chains on architectures with a Toll; in every returned "
    "mapping the outermost holder of every tensor shared between Einsums is not a Toll. Non-trivial (A): a tensor with "
    "direction 'up' only or 'down' only that also moves the other way through the Toll's position; (B): a shared tensor is "
    "held by the Toll somewhere in the returned mapping. Distinct = distinct descriptor."
)
ASSUMPTIONS = [
    "skip_initial_output_write left at its default (True) on all components: with mixed flags 'crossing' is ambiguous",
    "RefExec Toll rule: a value crossing down (fills, operand reads) or up (write-backs, result writes) adds one read-value iff the per-tensor direction includes that direction; a skipped first fill does not cross",
]

DIRS = ["up", "down", "up_and_down"]


@st.composite
def cases(draw):
    wl = draw(GM.single_einsum_workload(shapes=("matmul", "matvec", "elementwise", "reduce", "outer")))
    tensors = [t for t, _, _ in wl["einsums"][0]["tensors"]]
    layout = draw(st.sampled_from(["M-T-G", "M-T-G", "M-G-T", "M-T-G-R"]))
    order = {"M-T-G": ["Tl", "GLB"], "M-G-T": ["GLB", "Tl"], "M-T-G-R": ["Tl", "GLB", "Reg"]}[layout]
    E, T = c05.ENERGIES, c05.TPS
    nodes = [{"type": "Memory", "name": "Main", "size": "inf", "keep": "All", "may_keep": "All",
              "read": [draw(st.sampled_from(E)), draw(st.sampled_from(T))],
              "write": [draw(st.sampled_from(E)), draw(st.sampled_from(T))], "leak": 0}]
    for name in order:
        if name == "Tl":
            n = {"type": "Toll", "name": "Tl", "keep": "Nothing", "may_keep": "All",
                 "direction": {t: draw(st.sampled_from(DIRS)) for t in tensors},
                 "read": [draw(st.sampled_from([1, 2, 3, 100])), draw(st.sampled_from(T))], "leak": 0}
            if draw(st.integers(0, 2)) == 0:
                n["values_per_action"] = {draw(st.sampled_from(tensors)): draw(st.sampled_from([2, 4, 0.5]))}
            if draw(st.integers(0, 3)) == 0:
                n["bits_per_action"] = draw(st.sampled_from([8, 16]))
        else:
            n = {"type": "Memory", "name": name, "size": "inf", "keep": "Nothing", "may_keep": "All",
                 "read": [draw(st.sampled_from(E)), draw(st.sampled_from(T))],
                 "write": [draw(st.sampled_from(E)), draw(st.sampled_from(T))], "leak": 0}
        nodes.append(n)
    nodes.append({"type": "Compute", "name": "MAC", "compute": [draw(st.sampled_from(E)), 1], "leak": 0})
    loops = draw(GM.loop_nest(wl["bounds"]))
    body = draw(GM.place_storage(loops, tensors, order))
    for n in body:
        if n["k"] == "storage" and n["level"] == "Tl":
            n["k"] = "toll"
    tree = [{"k": "storage", "level": "Main", "tensors": tensors}] + body + [{"k": "compute", "einsum": "E", "level": "MAC"}]
    spec = {"einsums": wl["einsums"], "bounds": wl["bounds"], "bits": {"All": draw(st.sampled_from([8, 16]))},
            "nodes": nodes, "shape": wl["shape"], "layout": layout}
    return {"kind": "concrete", "spec": spec, "tree": tree}


def check_concrete(desc, col):
    einsums, bounds, comps, wl_bits = GM.to_ref(desc)
    res = RX.Executor(einsums, bounds, comps, wl_bits).run(desc["tree"])
    ref = RX.summarize(res, comps, wl_bits)
    # classification: would the toll have seen traffic in the other direction too?
    probe = {k: (dict(v, direction="up_and_down") if v["kind"] == "toll" else v) for k, v in comps.items()}
    res_all = RX.Executor(einsums, bounds, probe, wl_bits).run(desc["tree"])
    toll_tensors = {t for n in desc["tree"] if n["k"] == "toll" for t in n["tensors"]}
    dirs = comps["Tl"]["direction"]
    onedir = [t for t in toll_tensors if dirs[t] != "up_and_down"
              and res_all.values.get(("Tl", t, "read"), 0) > res.values.get(("Tl", t, "read"), 0) + 1e-9]
    nontrivial = bool(onedir)
    labels = [f"layout:{desc['spec']['layout']}", "toll_in_mapping" if toll_tensors else "toll_unused",
              "onedir_exercised" if onedir else "onedir_not_exercised",
              "toll_vpa" if "values_per_action" in [k for n in desc["spec"]["nodes"] if n["name"] == "Tl" for k in n] else "toll_default_vpa"]
    col.case(desc, nontrivial, labels, sample={"tree": [c05._short(n) if n["k"] != "toll" else f"Toll[{','.join(n['tensors'])}]" for n in desc["tree"]],
                                              "direction": dirs, "toll_read_values": {t: res.values.get(("Tl", t, "read"), 0) for t in sorted(toll_tensors)}})
    got = must(c05.evaluate, desc, what="evaluate_mapping")
    SEP = "<SEP>"
    for c, v in got.items():
        p = c.split(SEP)
        if "Tl" in p:
            if p[-1] == "write" and float(v) != 0:
                raise Violation(f"Toll write actions non-zero: {c} = {v}", key="toll:write")
            if ("usage" in p or "reservation" in p) and float(v) != 0:
                raise Violation(f"Toll contributes occupancy: {c} = {v}", key="toll:occupancy")
    try:
        c05.compare(desc, got, ref)
    except Violation as v:
        if "'Tl'" in v.message:
            raise Violation(v.message, key="toll:read-count")
        raise


# ---- part B: mapper results -----------------------------------------------------------

@st.composite
def mapper_cases(draw):
    wl = draw(G.workloads(shapes=("chain2", "chain2", "elementwise2"), bound_pool=[1, 2, 2, 3, 4, 6]))
    bits = list(wl["bits"].values())[0]
    sizes = G.tensor_sizes(wl)
    tot = sum(sizes.values())
    toll_pos = draw(st.sampled_from(["above_glb", "below_glb"]))
    main_keep = draw(st.sampled_from(["~Intermediates", "~Intermediates", "All"]))
    toll = {"type": "Toll", "name": "Tl", "keep": draw(st.sampled_from(["All", "All", "Nothing", "Intermediates", "Outputs"])),
            "direction": draw(st.sampled_from(DIRS)), "read": [draw(st.sampled_from([1, 5, 100])), "inf"], "leak": 0}
    if toll["keep"] != "All":
        toll["may_keep"] = "All"
    glb = {"type": "Memory", "name": "GLB", "size": draw(st.sampled_from(["inf", tot * bits, max(2, tot // 2) * bits])),
           "keep": "~Main" if main_keep != "All" else "Nothing", "may_keep": "All", "read": [1, "inf"], "write": [1, "inf"], "leak": 0}
    nodes = [{"type": "Memory", "name": "Main", "size": "inf", "keep": main_keep, "may_keep": "All",
              "read": [draw(st.sampled_from([2, 10])), "inf"], "write": [draw(st.sampled_from([2, 10])), "inf"], "leak": 0}]
    nodes += [toll, glb] if toll_pos == "above_glb" else [glb, toll]
    nodes.append({"type": "Compute", "name": "MAC", "compute": [1, 1], "leak": 0})
    d = dict(wl)
    d["nodes"] = nodes
    d["mapper"] = {"metrics": draw(st.sampled_from(["ENERGY", "ENERGY|LATENCY"]))}
    d["toll_pos"] = toll_pos
    return {"kind": "mapper", "spec": d}


def _walk(node, path, out):
    """collect (tensor -> list of holder (component, is_toll) top-down) along every root->compute path"""
    from accelforge.frontend.mapping import TensorHolder, Toll as MToll, Compute as MCompute

    nodes = getattr(node, "nodes", None)
    if isinstance(node, TensorHolder):
        path = path + [(t, node.component, isinstance(node, MToll)) for t in node.tensors]
    if isinstance(node, MCompute):
        out.append(path)
        return path
    if nodes is not None:
        from accelforge.frontend.mapping import Split
        if isinstance(node, Split):
            for ch in nodes:
                _walk(ch, list(path), out)
            return path
        p = list(path)
        for ch in nodes:
            p = _walk(ch, p, out) or p
        return p
    return path


def check_mapper(desc, col):
    sp = desc["spec"]
    spec = G.build_spec(sp)
    try:
        m = G.run_mapper(spec)
    except G.Infeasible:
        col.case(desc, False, ["mapper:infeasible"])
        return
    except Exception as e:  # noqa: BLE001
        raise Violation(f"map_workload_to_arch raised {type(e).__name__}: {str(e)[:500]}", key=f"mapper-crash:{type(e).__name__}")
    shared = set()
    outs = {t for e in sp["einsums"] for t, _, o in e["tensors"] if o}
    ins = {t for e in sp["einsums"] for t, _, o in e["tensors"] if not o}
    shared = outs & ins
    toll_holds_shared = False
    bad = None
    for i in range(len(m.data)):
        paths = []
        _walk(m.mapping(i), [], paths)
        for path in paths:
            first = {}
            for t, comp, is_toll in path:
                if t in shared:
                    if is_toll:
                        toll_holds_shared = True
                    if t not in first:
                        first[t] = (comp, is_toll)
            for t, (comp, is_toll) in first.items():
                if is_toll:
                    bad = (i, t, comp)
    col.case(desc, toll_holds_shared, [f"mapper:{sp['toll_pos']}", "toll_holds_shared" if toll_holds_shared else "toll_no_shared",
                                       f"rows:{min(len(m.data), 3)}"],
             sample={"einsums": [e["name"] for e in sp["einsums"]], "bounds": sp["bounds"], "toll_keep": [n for n in sp["nodes"] if n["name"] == "Tl"][0]["keep"],
                     "n_returned": len(m.data)})
    if bad:
        raise Violation(f"returned mapping {bad[0]}: Toll {bad[2]} is the outermost holder of shared tensor {bad[1]}", key="toll:outermost-shared")


def check(desc, col):
    if desc["kind"] == "concrete":
        check_concrete(desc, col)
    else:
        check_mapper(desc, col)


N = {"quick": (400, 32), "thorough": (4000, 240)}
NSHARDS = 16


def shards(tier, seed):
    a, b = N[tier]
    return [{"k": k, "n_concrete": a // NSHARDS, "n_mapper": b // NSHARDS, "seed": seed} for k in range(NSHARDS)]


def run_shard(shard, col):
    drive(cases(), check, n=shard["n_concrete"], seed=hash32(shard["seed"], "C31a", shard["k"]), col=col)
    drive(mapper_cases(), check, n=shard["n_mapper"], seed=hash32(shard["seed"], "C31b", shard["k"]), col=col)


def replay(desc, col):
    check(desc, col)

REGISTER = True
QUICK_BUDGET_S = 400
MUTANTS = [
    {"what": "analyze_toll: count_up / count_down swapped", "caught": True},
    {"what": "analyze_toll: max_occupancy = 0 removed (Toll would reserve space)", "caught": True, "how": "crash:KeyError in evaluate_mapping and mapper"},
    {"what": "make_storages: Toll keep sets no longer intersected with Above", "caught": True, "how": "mapper-crash (accelforge's own assertion fires)"},
]
MANIFEST = {
    "level_text": "Differential testing of evaluate_mapping against the literal executor with Toll accounting on generated concrete mappings (Toll above or below the buffer, per-tensor directions, values_per_action), plus a structural check of every mapper result on 2-Einsum specs with a Toll (outermost holder of shared tensors is never a Toll). No counterexample in N cases; not a proof.",
    "level_note": "Trusted: vf/ref/looptree_exec.py Toll rule (ASSUMPTIONS). skip_initial_output_write at default. Mapper part covers chains/elementwise pairs with one Toll.",
    "technique": "property-based differential testing against a reference executor + validity predicate over mapper output (Hypothesis)",
}
