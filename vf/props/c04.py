"""C04 — mapper-reported (joined) metrics equal the model's evaluation of the returned mapping."""

import copy
import math

from hypothesis import strategies as st

from vf.core import Violation, close, drive, hash32, must
from vf.gen import canon as CN
from vf.gen import mapping as GM
from vf.gen import spec as G
from vf.ref import looptree_exec as RX

PROPERTY = "C04"
LEVEL = "exploration"
TOLERANCE = "rel 1e-5, abs 1e-6 (joined tables are float32)"
RULE = (
    "Hypothesis-generated G-SPEC specs (1-3 Einsums: matmul, chains of 2-3 matmuls, 2 elementwise ops, diamond; Main + GLB "
    "(+ Reg) + MAC, finite non-exact-fit GLB sizes, leak, finite throughputs, n_instances; metric sets E, L, E|L, "
    "E|RESOURCE_USAGE, E|L|RESOURCE_USAGE, EDP). Run A = map_workload_to_arch(eval_in_detail=False) with make_pmappings' "
    "return value captured; for EVERY returned row the harness rebuilds Total<SEP>mapping(_for_model=True) and evaluates it "
    "with evaluate_mapping on a FRESH spec built from the descriptor (no mapper state reused): Total energy / latency / EDP "
    "and per-memory usage of A must equal the model's, and the usage must also equal the allocation-log peak of the literal "
    "executor vf/ref/looptree_exec.py on the returned tree / size (evaluate_mapping shares the joiner's reservation logic). Per Einsum: the constituent pmapping-table row (found by pmapping "
    "object identity and tile-shape columns) must carry the model's per-Einsum energy sum and max component latency, and "
    "the per-Einsum values must add up to A's totals. Run B = map_workload_to_arch(eval_in_detail=True): a sub-multiset of the "
    "canonical mapping trees of A (rows that turn out dominated after the detailed evaluation may be dropped), same totals per tree, and every per-Einsum energy/action/latency column of B equals the "
    "harness evaluation. Non-trivial: (>= 2 Einsums and some returned mapping is fused, i.e. an intermediate is not kept "
    "in Main) or >= 2 returned rows. Distinct = distinct spec descriptor."
)
ASSUMPTIONS = [
    "per-Einsum model value = sum of <einsum><SEP>energy<SEP>* columns / max of <einsum><SEP>latency<SEP>* columns of the harness evaluation",
    "usage is compared per memory as the maximum over its reservation columns (Mappings.resource_usage), and only when run A reports reservation columns (RESOURCE_USAGE requested)",
    "rows of runs A and B are matched by the canonical string of Mappings.mapping(i) (vf/gen/canon.py); the mapper is deterministic for a fixed spec",
    "memory sizes are never an exact multiple of a tile (generator adds half a value) to stay clear of the known exact-fit float32 finding (known_findings.json C08)",
]

SEP = "<SEP>"
METRICS = ["ENERGY|LATENCY|RESOURCE_USAGE", "ENERGY|LATENCY", "ENERGY|LATENCY", "ENERGY_DELAY_PRODUCT", "ENERGY", "LATENCY",
           "ENERGY|RESOURCE_USAGE", "ENERGY|LATENCY|RESOURCE_USAGE"]


@st.composite
def copy_cases(draw, salt=0):
    """a copy Einsum (I = Iin, 'bring the input on chip') feeding one or two matmuls; the GLB keeps everything or may keep
    everything, so returned mappings hold the copy's source and destination in the same memory"""
    two = draw(st.booleans())
    es = [{"name": "Cp", "tensors": [["Iin", ["m", "k"], False], ["I", ["m", "k"], True]], "is_copy_operation": True},
          {"name": "E1", "tensors": [["I", ["m", "k"], False], ["B", ["k", "n"], False], ["Z", ["m", "n"], True]]}]
    rvs = ["m", "k", "n"]
    if two:
        es.append({"name": "E2", "tensors": [["I", ["m", "k"], False], ["C", ["k", "p"], False], ["Y", ["m", "p"], True]]})
        rvs.append("p")
    bounds = {rv: draw(st.sampled_from([1, 2, 2, 3, 4])) for rv in rvs}
    bits = draw(st.sampled_from([4, 8]))
    d = {"shape": "copy+matmul2" if two else "copy+matmul", "einsums": es, "bounds": bounds, "bits": {"All": bits}}
    tot = sum(G.tensor_sizes(d).values())
    big = max(G.tensor_sizes(d).values())
    vals = draw(st.sampled_from(["inf", tot, tot, max(3, tot // 2), big + 3]))
    keep_all = draw(st.integers(0, 3)) > 0
    ep = [1, 2, 4, 10]
    d["nodes"] = [{"type": "Memory", "name": "Main", "size": "inf", "keep": draw(st.sampled_from(["All", "~Intermediates"])),
                   "may_keep": "All", "read": [draw(st.sampled_from(ep)) + 4, "inf"], "write": [draw(st.sampled_from(ep)) + 4, "inf"],
                   "leak": 0},
                  {"type": "Memory", "name": "GLB", "size": "inf" if vals == "inf" else vals * bits + bits / 2,
                   "keep": "All" if keep_all else "~Main", "may_keep": "All",
                   "read": [draw(st.sampled_from(ep)), draw(st.sampled_from(["inf", 2]))],
                   "write": [draw(st.sampled_from(ep)), draw(st.sampled_from(["inf", 2]))], "leak": 0},
                  {"type": "Compute", "name": "MAC", "compute": [1, 1], "leak": 0}]
    pool = METRICS[salt % len(METRICS):] + METRICS[:salt % len(METRICS)]
    d["mapper"] = {"metrics": draw(st.sampled_from(pool))}
    d["n_instances"] = 1
    return {"spec": d}


@st.composite
def cases(draw, salt=0):
    if draw(st.integers(0, 3)) == 0:
        return draw(copy_cases(salt))
    d = draw(G.specs(shapes=("chain2", "chain3", "chain2", "elementwise2", "chain3", "matmul", "diamond"),
                     levels=(2, 2, 2, 3), metrics=METRICS[salt % len(METRICS):] + METRICS[:salt % len(METRICS)], bound_pool=[1, 2, 2, 3, 4, 6], allow_leak=True, max_ops=200))
    three_levels = len(d["nodes"]) > 3
    if three_levels and len(d["einsums"]) >= 3:
        d["nodes"] = [n for n in d["nodes"] if n["name"] != "Reg"]      # 3 Einsums x 3 memory levels costs minutes per run
        three_levels = False
    if len(d["einsums"]) >= 3 or three_levels:
        cap = 3 if three_levels else 4
        d["bounds"] = {k: min(v, cap) for k, v in d["bounds"].items()}
        # sizes were drawn for the old bounds: clamp relative to the new tensor sizes
        bits = list(d["bits"].values())[0]
        tot = sum(G.tensor_sizes(d).values())
        for n in d["nodes"]:
            if n["type"] == "Memory" and n["name"] != "Main" and n["size"] != "inf":
                n["size"] = min(n["size"], tot * bits + bits / 2)
    d["n_instances"] = draw(st.sampled_from([1, 1, 1, 2]))
    if draw(st.integers(0, 4)) == 0:
        d["einsums"] = [dict(e) for e in d["einsums"]]
        draw(st.sampled_from(d["einsums"]))["n_instances"] = draw(st.sampled_from([2, 3]))
    return {"spec": d}


# ---------------------------------------------------------------------------
# running the mapper with make_pmappings' result captured
# ---------------------------------------------------------------------------

def run_captured(spec, eval_in_detail):
    import accelforge.mapper.FFM.main as MM

    cap = {}
    orig = MM.make_pmappings

    def wrapper(*a, **kw):
        cap["pm"] = orig(*a, **kw)
        return cap["pm"]

    MM.make_pmappings = wrapper
    try:
        m = G.run_mapper2(spec, eval_in_detail=eval_in_detail)
    finally:
        MM.make_pmappings = orig
    return m, cap.get("pm")


def harness_eval(sp, mapping):
    """evaluate a reconstructed mapping on a fresh spec; nothing of the mapper run is reused"""
    from accelforge.model.main import evaluate_mapping

    spec2 = G.build_spec(sp)
    spec2.model.metrics = spec2.mapper.info_metrics
    spec2.mapping = mapping
    return evaluate_mapping(spec2)


def numeric_row(df, i):
    out = {}
    for c in df.columns:
        if c.endswith("mapping"):
            continue
        try:
            out[c] = float(df[c].iloc[i])
        except (TypeError, ValueError):
            pass
    return out


def usage_max(row):
    out = {}
    for c, v in row.items():
        p = c.split(SEP)
        if p[0] == "reservation":
            out[p[1]] = max(out.get(p[1], 0.0), v)
    return out


def per_einsum_model(row, e):
    en = sum(v for c, v in row.items() if c.split(SEP)[0] == e and c.split(SEP)[1:2] == ["energy"])
    lat = max([v for c, v in row.items() if c.split(SEP)[0] == e and c.split(SEP)[1:2] == ["latency"]] + [0.0])
    return en, lat


def find_pmapping_row(pm, e, joined_row):
    """the pmapping-table row of Einsum e that a joined row was built from -> (dict of its numeric cells | None, why)"""
    obj = joined_row[f"{e}{SEP}mapping"]
    ids = [u for u, o in pm.pmapping_objects[e].items() if o is obj]
    if len(ids) != 1:
        return None, "object-not-found"
    found = []
    for g in pm.einsum2pmappings[e]:
        df = g.mappings.data
        col = f"{e}{SEP}mapping"
        if col not in df.columns:
            continue
        sub = df[df[col] == ids[0]]
        if not len(sub):
            continue
        tile_cols = [c for c in sub.columns if c.startswith(e + SEP) and c != col]
        for j in range(len(sub)):
            r = sub.iloc[j]
            if all(c in joined_row.index and close(float(r[c]), float(joined_row[c]), rel=1e-6) for c in tile_cols):
                found.append({c: float(r[c]) for c in sub.columns if c != col})
    if not found:
        return None, "no-row"
    keys = ("Total<SEP>energy", "Total<SEP>latency")
    first = found[0]
    for f in found[1:]:
        if any(k in first and not close(first[k], f.get(k, math.nan), rel=1e-6) for k in keys):
            return None, "ambiguous"
    return first, "ok"


def cmp(have, want, what, key):
    if not close(float(have), float(want), rel=1e-5, abs_=1e-6):
        raise Violation(f"{what}: mapper-reported {have} vs model {want}", key=key)


def is_fused(tree, intermediates):
    held_in_main = set()
    shared_loop = False

    def walk(nodes, above_split):
        nonlocal shared_loop
        for n in nodes:
            if n["k"] in ("storage", "toll") and n["level"] == "Main":
                held_in_main.update(n["tensors"])
            if n["k"] == "seq":
                if any(x["k"] == "loop" and (x.get("n_it") or 2) > 1 for x in above_split):
                    shared_loop = True
                for b in n["branches"]:
                    walk(b, [])
                return
            above_split = above_split + [n]

    walk(tree, [])
    return bool(intermediates - held_in_main), shared_loop


def check(desc, col):
    import time

    t0 = time.time()
    try:
        _check(desc, col)
    finally:
        dt = time.time() - t0
        sp = desc["spec"]
        if dt > 60:
            col.label(f"slow_case>60s:{sp.get('shape')}:levels{sum(n['type'] == 'Memory' for n in sp['nodes'])}")


def _check(desc, col):
    sp = desc["spec"]
    einsums = [e["name"] for e in sp["einsums"]]
    _, inter, _, _ = G.einsum_tensors(sp)
    metrics = sp["mapper"]["metrics"]
    base = [f"shape:{sp.get('shape', '?')}", "copy_einsum" if any(e.get("is_copy_operation") for e in sp["einsums"]) else "no_copy_einsum", f"einsums:{len(einsums)}", f"levels:{sum(n['type'] == 'Memory' for n in sp['nodes'])}", f"metrics:{metrics}",
            "with_RESOURCE_USAGE" if "RESOURCE_USAGE" in metrics else "without_RESOURCE_USAGE",
            "with_EDP" if "DELAY" in metrics else "without_EDP"]
    spec = G.build_spec(sp)
    try:
        A, pm = run_captured(spec, eval_in_detail=False)
    except G.Infeasible:
        col.case(desc, False, base + ["mapper:infeasible"])
        return
    except Exception as e:  # noqa: BLE001
        col.case(desc, False, base + ["mapper:crash"])
        raise Violation(f"map_workload_to_arch(eval_in_detail=False) raised {type(e).__name__}: {str(e)[:400]}",
                        key=f"mapper-crash:{type(e).__name__}")
    nA = len(A.data)
    trees = [CN.tree(A.mapping(i)) for i in range(nA)]
    canA = [CN.canon_tree(t) for t in trees]
    fused_flags = [is_fused(t, inter) for t in trees]
    fused = any(f for f, _ in fused_flags)
    nontrivial = (len(einsums) >= 2 and fused) or nA >= 2
    labels = base + [f"rows:{min(nA, 3)}{'+' if nA >= 3 else ''}", "fused_result" if fused else "unfused_result",
                     "shared_loops" if any(s for _, s in fused_flags) else "no_shared_loops", "eval_in_detail:off"]
    col.case(desc, nontrivial, labels,
             sample={"shape": sp.get("shape"), "bounds": sp["bounds"], "metrics": metrics, "rows": nA,
                     "first_mapping": CN.show(trees[0]) if trees else None})

    # ---- every row of A against the harness' own model evaluation -------------------------
    rowsA = [numeric_row(A.data, i) for i in range(nA)]
    evals = []
    for i in range(nA):
        mp = A.data.iloc[i]["Total<SEP>mapping"](_for_model=True)
        H = must(harness_eval, sp, mp, what=f"evaluate_mapping on returned mapping {i}", key="model-rejects-returned-mapping")
        if len(H.data) != 1:
            raise Violation(f"evaluate_mapping of returned mapping {i} produced {len(H.data)} rows", key="model-rows")
        h = numeric_row(H.data, 0)
        evals.append(h)
        a = rowsA[i]
        seen = 0
        for name, key in (("energy", "total:energy"), ("latency", "total:latency"), ("energy_delay_product", "total:edp")):
            c = f"Total{SEP}{name}"
            if c in a:
                seen += 1
                if name == "energy_delay_product":
                    # not the model's own EDP column (same helper as the joiner's): energy x latency of the model
                    want = h.get(f"Total{SEP}energy", math.nan) * h.get(f"Total{SEP}latency", math.nan)
                elif c not in h:
                    raise Violation(f"model evaluation lacks {c}", key="missing-column")
                else:
                    want = h[c]
                cmp(a[c], want, f"row {i} {c} (eval_in_detail=False)", key)
        if not seen:
            raise Violation(f"joined result has no Total objective column: {sorted(a)[:8]}", key="missing-column")
        ua, uh = usage_max(a), usage_max(h)
        if ua:
            col.label("usage_compared")
        for mem, v in ua.items():
            cmp(v, uh.get(mem, 0.0), f"row {i} usage of {mem} (max reservation, eval_in_detail=False)", "total:usage")
        if ua and any(e.get("is_copy_operation") for e in sp["einsums"]):
            col.label("copy_einsum:usage_vs_execution_skipped")
        elif ua:
            # evaluate_mapping joins its per-Einsum pmappings with the same reservation logic as the mapper, so for usage
            # the independent reference is the allocation-log peak of the literal executor on the returned tree (C06's oracle)
            einsums_r, bounds_r, comps_r, wl_bits_r = GM.to_ref({"spec": sp})
            peaks = RX.Executor(einsums_r, bounds_r, comps_r, wl_bits_r).run(CN.exec_tree(trees[i])).peak_bits
            for node in sp["nodes"]:
                if node["type"] == "Memory" and node["size"] != "inf" and node["name"] in ua:
                    want = peaks.get(node["name"], 0) / G.num(node["size"])
                    if not close(ua[node["name"]], want, rel=1e-5, abs_=1e-6):
                        raise Violation(f"row {i} usage of {node['name']}: mapper-reported {ua[node['name']]} vs executed peak "
                                        f"{peaks.get(node['name'], 0)} bits / size {node['size']} = {want}\nmapping: {CN.show(trees[i])}",
                                        key="total:usage-vs-execution")
                    col.label("usage_vs_execution_compared")
        # ---- per-Einsum: pmapping-table rows vs the model's per-Einsum sums -----------------
        sums = {}
        ok_all = True
        for e in einsums:
            prow, why = find_pmapping_row(pm, e, A.data.iloc[i])
            col.label("per_einsum_lookup:" + why)
            if prow is None:
                ok_all = False
                continue
            en, lat = per_einsum_model(h, e)
            for cname, want, key in ((f"Total{SEP}energy", en, "per-einsum:energy"), (f"Total{SEP}latency", lat, "per-einsum:latency")):
                if cname in prow:
                    cmp(prow[cname], want, f"row {i} Einsum {e} pmapping-table {cname}", key)
                    sums[cname] = sums.get(cname, 0.0) + prow[cname]
        if ok_all:
            for cname, s in sums.items():
                if cname in a:
                    cmp(a[cname], s, f"row {i} joined {cname} vs sum of the constituent pmappings' values", "join:sum")

    # ---- run B: eval_in_detail=True -------------------------------------------------------
    try:
        B = G.run_mapper2(G.build_spec(sp), eval_in_detail=True)
    except Exception as e:  # noqa: BLE001
        raise Violation(f"map_workload_to_arch(eval_in_detail=True) raised {type(e).__name__} although eval_in_detail=False "
                        f"returned {nA} mappings: {str(e)[:300]}", key=f"detail-crash:{type(e).__name__}")
    col.label("eval_in_detail:on")
    nB = len(B.data)
    canB = [CN.canon(B.mapping(i)) for i in range(nB)]
    from collections import Counter as _Counter
    # eval_in_detail=True re-filters the rows after the detailed (float64) evaluation and may drop rows that the
    # float32 join kept (accelforge "fix: ... dominated after detailed evaluation"); it never adds any
    if _Counter(canB) - _Counter(canA):
        raise Violation(f"eval_in_detail=True returned {nB} mappings, eval_in_detail=False {nA}; canonical trees differ "
                        f"(only in A: {len(set(canA) - set(canB))}, only in B: {len(set(canB) - set(canA))})", key="detail:row-set")
    if nB < nA:
        col.label("detail_dropped_rows")
    if len(set(canA)) != nA:
        col.label("duplicate_canon")
    used = set()
    for j in range(nB):
        b = numeric_row(B.data, j)
        cands = [i for i in range(nA) if canA[i] == canB[j] and i not in used]
        # identical trees (rare): pair by closest energy
        i = min(cands, key=lambda k: abs(rowsA[k].get("Total<SEP>energy", 0) - b.get("Total<SEP>energy", 0)))
        used.add(i)
        for name, key in (("energy", "detail:energy"), ("latency", "detail:latency"), ("energy_delay_product", "detail:edp")):
            c = f"Total{SEP}{name}"
            if c in rowsA[i] and c in b:
                cmp(rowsA[i][c], b[c], f"mapping {i} {c}: eval_in_detail=False vs eval_in_detail=True", key)
        ua, ub = usage_max(rowsA[i]), usage_max(b)
        for mem, v in ua.items():
            cmp(v, ub.get(mem, 0.0), f"mapping {i} usage of {mem}: eval_in_detail=False vs True", "detail:usage")
        h = evals[i]
        for c in sorted(set(b) | set(h)):
            p = c.split(SEP)
            if p[0] in einsums and len(p) > 1 and p[1] in ("energy", "action", "latency"):
                if not close(b.get(c, 0.0), h.get(c, 0.0), rel=1e-5, abs_=1e-6):
                    raise Violation(f"mapping {i} column {c}: eval_in_detail=True reports {b.get(c, 0.0)}, the model evaluated "
                                    f"standalone gives {h.get(c, 0.0)}", key="detail:per-einsum-column")


N = {"quick": 32, "thorough": 480}
NSHARDS = 16
QUICK_BUDGET_S = 500
THOROUGH_BUDGET_S = 3000


def shards(tier, seed):
    return [{"k": k, "n": N[tier] // NSHARDS, "seed": seed} for k in range(NSHARDS)]


def run_shard(shard, col):
    import os

    # VF_NO_SHRINK=1 (mutation experiments only): skip Hypothesis shrinking, each step of which is a mapper run
    # the metric pool is rotated per shard: with 2-3 examples per shard Hypothesis' preference for the first element of
    # sampled_from would starve the other metric sets
    drive(cases(shard["k"] + hash32(shard["seed"], "C04salt") % 8), check, n=shard["n"], seed=hash32(shard["seed"], "C04", shard["k"]), col=col,
          shrink=os.environ.get("VF_NO_SHRINK") != "1")


def replay(desc, col):
    check(desc, col)


REGISTER = True
MUTANTS = [
    {"what": "merge_next: objective column of the right table added twice", "caught": True, "how": "join:sum"},
    {"what": "row2pmappings: tile shapes read from the first Einsum's columns", "caught": True, "how": "model-rejects-returned-mapping"},
    {"what": "_apply_edp_columns: EDP = energy + latency", "caught": True, "how": "total:edp",
     "note": "survived the first version (A's EDP was compared with the model's EDP column, built by the same helper); the oracle now multiplies the model's energy and latency itself"},
    {"what": "merge_next: 'RIGHT tree, RIGHT reservations' loop disabled (reported usage of 3-Einsum joins too small)", "caught": True,
     "how": "total:usage-vs-execution",
     "note": "survived while usage was only compared with evaluate_mapping (which joins with the same code); caught after adding the literal-executor peak as usage reference and more 3-Einsum cases"},
    {"what": "merge_next: 'LEFT tree, RIGHT reservations' loop disabled; shared_to_free uses < instead of <=", "caught": False,
     "note": "direct probes (chain of 3 matmuls, 22 returned rows) show bit-identical reported usage with and without these two mutations: no observable effect in the domain"},
    {"what": "run_model: n_instances applied to latency but not energy (planned in DESIGN)", "caught": None,
     "note": "not run: mapper and harness evaluation share run_model, so C04 cannot see it by construction; the detailed-column variant is C28's mutant 5, action/energy correctness is C05's subject"},
]
MANIFEST = {
    "level_text": "For every row returned by map_workload_to_arch(eval_in_detail=False) on N generated small specs the harness rebuilds the mapping and evaluates it with evaluate_mapping on a fresh spec; totals (energy, latency, EDP, per-memory usage), the per-Einsum values of the constituent pmapping-table rows and their sum are compared with the model, and a second run with eval_in_detail=True must return (a subset of) the same mappings with the same numbers; a quarter of the specs contain a copy Einsum. No counterexample found; not a proof.",
    "level_note": "Trusted: evaluate_mapping as the model (its own correctness is C05/C06). Per-Einsum comparison needs the pmapping row to be found (label per_einsum_lookup). Domain: temporal-only architectures Main/GLB(/Reg)/MAC, 1-3 Einsums.",
    "technique": "property-based differential testing of the joiner against the model on real mapper output (Hypothesis), with harness-side capture of make_pmappings",
}
