"""Harness-side instrumentation of accelforge's tile-shape exploration (no repo change).

* template_jobs(spec)              -> the real pmapping-template jobs make_pmappings would run
* run_template(job, exhaustive=..) -> make_pmappings_from_templates on ONE template, optionally with
                                      get_tile_shape_choices replaced by an exhaustive enumerator
* prune_threshold(n)               -> context manager replacing the literal 1000 below which
                                      get_tile_shape_choices never Pareto-prunes
* harvest_verdicts()               -> context manager recording every geq_leq_zero /
                                      diff_geq_leq_zero call made by the mapper
"""

from __future__ import annotations

import contextlib
import copy
import itertools
import math


def _mts():
    from accelforge.mapper.FFM._make_pmappings.make_pmappings_from_templates import make_tile_shapes as MTS

    return MTS


def template_jobs(spec, can_combine_multiple_runs=False):
    """All template jobs of all Einsums, exactly as make_pmappings builds them."""
    import accelforge as af
    from accelforge.mapper.FFM._make_pmappings import make_pmappings as MP

    af.set_n_parallel_jobs(1)
    metrics = spec.mapper.metrics
    s2 = copy.deepcopy(spec)._spec_eval_expressions(eval_arch=False, eval_non_arch=True)
    e2j = MP.get_jobs(s2, metrics, s2.workload.einsum_names, False, False)
    MP._fill_jobs_with_memories_to_track(e2j, s2, metrics, can_combine_multiple_runs, False)
    return [j for e in e2j.values() for jl in e.values() for j in jl]


# ---------------------------------------------------------------------------
# exhaustive tile-shape source
# ---------------------------------------------------------------------------

class ExhaustiveInfo:
    def __init__(self):
        self.n_all = 0
        self.n_valid = 0
        self.unsupported = None
        self.exact_fit = 0          # assignments that meet some limit exactly (within 1e-6)
        self.symbols = []


def make_exhaustive_source(info: ExhaustiveInfo, apply_validity=True):
    """Replacement for get_tile_shape_choices: every perfectly factorising assignment that
    satisfies the validity limits (objective max/min values, loop-count groups)."""
    import numpy as np
    import sympy

    def source(objectives, symbols, alt_objectives, what_tiles_symbol, job, keep_symbols=(),
               max_loop_check_groups=(), alt_objectives_first=False):
        W = what_tiles_symbol
        info.symbols = [str(s) for s in symbols]
        if W.tile_shape_and_initial:
            info.unsupported = "initial-tile-shape symbols (non-unit stride/halo projections)"
            raise NotImplementedError(info.unsupported)
        symset = set(symbols)
        order = [s for s in W.tiling_order_outer_to_inner if s in symset]
        order += [s for s in symbols if s not in order]
        # enumerate divisor chains outer -> inner
        rows = [{}]
        for s in order:
            outer = W.get_outer_tiles(s)
            new = []
            for r in rows:
                o = outer if isinstance(outer, int) else r[outer]
                for d in range(1, int(o) + 1):
                    if o % d == 0:
                        r2 = dict(r)
                        r2[s] = d
                        new.append(r2)
            rows = new
        # inner constraint: a fixed (int) inner tile must divide the symbol
        keep = []
        for r in rows:
            ok = True
            for s in symbols:
                inner = W.get_inner_tiles(s, none_if_fail=True)
                if isinstance(inner, int) and r[s] % inner != 0:
                    ok = False
            if ok:
                keep.append(r)
        rows = keep
        info.n_all = len(rows)
        if not symbols:
            return np.array([])
        if apply_validity:
            lb_checks = _loop_bound_checks(job)
            own_groups = _loop_count_groups(job)
            if own_groups is not None:
                max_loop_check_groups = own_groups      # limits restated from the mapper knobs, not taken from the caller
            fns = []
            for o in objectives:
                if o.max_value is None and o.min_value is None:
                    continue
                if lb_checks is not None and str(o.name).startswith("loop_bounds_"):
                    continue        # loop bounds are judged independently below, not by accelforge's formulas
                f = sympy.lambdify(list(symbols), o.formula, "math")
                fns.append((o, f))
            valid = []
            for r in rows:
                args = [r[s] for s in symbols]
                ok = True
                for o, f in fns:
                    v = float(f(*args))
                    if (o.max_value is not None and str(o.name).startswith("usage<SEP>memory")
                            and abs(v - o.max_value) <= 1e-6 * abs(o.max_value)):
                        info.exact_fit += 1     # a MEMORY filled exactly (known float32 finding); fanouts are exact
                    if o.max_value is not None:
                        if (v > o.max_value * (1 + 1e-9)) if o.inclusive else (v >= o.max_value):
                            ok = False
                    if o.min_value is not None and not o.try_best_if_none_reaches_min:
                        if (v < o.min_value * (1 - 1e-9)) if o.inclusive else (v <= o.min_value):
                            ok = False
                if ok and lb_checks:
                    for chk in lb_checks:
                        trips = []
                        for own, outer in chk["targets"]:
                            ov = outer if isinstance(outer, int) else r[outer]
                            wv = own if isinstance(own, int) else r[own]
                            trips.append(ov / wv)
                        vals = [math.prod(trips)] if chk["product"] else trips
                        op, lim = chk["op"], chk["value"]
                        for v in vals:
                            good = {"==": v == lim, "<=": v <= lim, ">=": v >= lim, "<": v < lim, ">": v > lim}[op]
                            if not good:
                                ok = False
                if not ok:
                    continue
                # loop-count limits: a loop exists iff its tile shape differs from the tile just outside it
                for limit, group in max_loop_check_groups:
                    n = 0
                    for g in group:
                        outer = W.get_outer_tiles(g, none_if_fail=True) if not isinstance(g, int) else None
                        gv = g if isinstance(g, int) else r[g]
                        if outer is None:
                            continue
                        ov = outer if isinstance(outer, int) else r[outer]
                        n += int(ov != gv)
                    if n > limit:
                        ok = False
                if ok:
                    valid.append(r)
            # best-effort minimums (min_usage): if nobody reaches the minimum keep the best
            for o, f in fns:
                if o.min_value is not None and o.try_best_if_none_reaches_min and valid:
                    vals = [float(f(*[r[s] for s in symbols])) for r in valid]
                    good = [r for r, v in zip(valid, vals) if v >= o.min_value * (1 - 1e-9)]
                    if good:
                        valid = good
                    else:
                        best = max(vals)
                        valid = [r for r, v in zip(valid, vals) if v == best]
            rows = valid
        info.n_valid = len(rows)
        arr = np.array([[r[s] for s in symbols] for r in rows], dtype=np.int64).reshape(len(rows), len(symbols))
        return arr

    return source


def _loop_count_groups(job):
    """(limit, [tile shapes]) groups restated from the mapper knobs and the template itself: all fused
    loops <= max_fused_loops; fused loops of one rank variable <= max_fused_loops_per_rank_variable;
    spatial loops of one (fanout dimension, component) <= max_loops_per_spatial_dimension."""
    try:
        from accelforge.frontend.mapping import Loop, Spatial

        mp = job.spec_one_einsum.mapper
        fused = [n for n in job.mapping.nodes if isinstance(n, Loop) and n._fused]
        groups = []
        if fused:
            groups.append((mp.max_fused_loops, [n.tile_shape for n in fused]))
            by_rv = {}
            for n in fused:
                by_rv.setdefault(n.rank_variable, []).append(n.tile_shape)
            groups += [(mp.max_fused_loops_per_rank_variable, v) for v in by_rv.values()]
        by_dim = {}
        for n in job.mapping.nodes:
            if isinstance(n, Spatial):
                by_dim.setdefault((n.name, n.component), []).append(n.tile_shape)
        groups += [(mp.max_loops_per_spatial_dimension, v) for v in by_dim.values()]
        return [(lim, [int(g) if getattr(g, "is_Integer", False) else g for g in grp]) for lim, grp in groups]
    except Exception:  # noqa: BLE001
        return None


def _loop_bound_checks(job):
    """The architecture's loop_bounds comparisons attached to this template, restated on the mapping's
    structure: the trip count of a loop is the tile shape of the nearest enclosing loop over the same rank
    variable (or the rank bound) divided by its own tile shape.  -> list of checks, or None if unavailable."""
    try:
        from accelforge.frontend.mapping import Loop

        loops = [n for n in job.mapping.nodes if isinstance(n, Loop)]
        out = []
        for c in job.constraints.loop_bounds_constraints:
            op = c.constraint.operator
            product = "product" in op
            op = op.replace("product", "")
            targets = []
            for i in c._target_loop_indices:
                n = loops[i]
                outer = job.rank_variable_bounds[n.rank_variable]
                for l in loops[:i]:
                    if l.rank_variable == n.rank_variable:
                        outer = l.tile_shape
                targets.append((n.tile_shape, outer if not hasattr(outer, "is_Integer") or not outer.is_Integer else int(outer)))
            if targets:
                out.append({"op": op, "value": c.constraint.value, "product": product, "targets": targets})
        return out
    except Exception:  # noqa: BLE001  (internal layout changed: fall back to accelforge's own objectives)
        return None


@contextlib.contextmanager
def patched_choices(source):
    MTS = _mts()
    orig = MTS.get_tile_shape_choices
    MTS.get_tile_shape_choices = source
    try:
        yield
    finally:
        MTS.get_tile_shape_choices = orig


@contextlib.contextmanager
def prune_threshold(n: int):
    """Replace the literal 1000 in get_tile_shape_choices ('choices < 1000 and symbols remain ->
    do not prune yet').  Yields True if the override is active."""
    MTS = _mts()
    fn = MTS.get_tile_shape_choices
    code = fn.__code__
    consts = list(code.co_consts)
    idx = [i for i, c in enumerate(consts) if type(c) is int and c == 1000]
    if n == 1000 or len(idx) != 1:
        yield n == 1000 and len(idx) == 1
        return
    consts[idx[0]] = n
    fn.__code__ = code.replace(co_consts=tuple(consts))
    try:
        yield True
    finally:
        fn.__code__ = code


def run_template(job, exhaustive=False, info: ExhaustiveInfo | None = None):
    """-> list of (compatibility string, DataFrame) produced for this single template"""
    from accelforge.mapper.FFM._make_pmappings.make_pmappings_from_templates.make_pmappings_from_templates import (
        make_pmappings_from_templates,
    )
    from accelforge.mapper.FFM._make_pmappings.pmapper_job import SameCompatibilityJobs

    jj = copy.deepcopy(job)
    if exhaustive:
        info = info if info is not None else ExhaustiveInfo()
        with patched_choices(make_exhaustive_source(info)):
            r = make_pmappings_from_templates(SameCompatibilityJobs([jj]))
    else:
        r = make_pmappings_from_templates(SameCompatibilityJobs([jj]))
    return [(str(g.compatibility), g.mappings.data) for g in r[1]]


def raw_tile_shapes(job, exhaustive=False, info: ExhaustiveInfo | None = None, apply_validity=True):
    """_make_tile_shapes(job) -> DataFrame (one row per tile-shape choice), on a copy of the job"""
    MTS = _mts()
    jj = copy.deepcopy(job)
    if exhaustive:
        info = info if info is not None else ExhaustiveInfo()
        with patched_choices(make_exhaustive_source(info, apply_validity=apply_validity)):
            df, t2m = MTS._make_tile_shapes(jj)
    else:
        df, t2m = MTS._make_tile_shapes(jj)
    return df, jj


# ---------------------------------------------------------------------------
# verdict harvesting (C09)
# ---------------------------------------------------------------------------

@contextlib.contextmanager
def harvest_verdicts(store: list, limit: int = 5000):
    MTS = _mts()
    o1, o2 = MTS.geq_leq_zero, MTS.diff_geq_leq_zero

    def w1(*a, **k):
        r = o1(*a, **k)
        if len(store) < limit:
            store.append(("geq_leq_zero", a, k, r))
        return r

    def w2(*a, **k):
        r = o2(*a, **k)
        if len(store) < limit:
            store.append(("diff_geq_leq_zero", a, k, r))
        return r

    for name in ("cache_clear",):
        for src, dst in ((o1, w1), (o2, w2)):
            if hasattr(src, name):
                setattr(dst, name, getattr(src, name))
    MTS.geq_leq_zero, MTS.diff_geq_leq_zero = w1, w2
    try:
        yield
    finally:
        MTS.geq_leq_zero, MTS.diff_geq_leq_zero = o1, o2
