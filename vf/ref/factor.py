"""Reference for C10: divisor sets and factorisation-chain enumeration.

No accelforge imports.  Written from the property statement:
* perfect: candidates == {d : inner | d and d | outer}
* imperfect: for every multiple m of inner with m <= outer the smallest shape giving
  ceil(outer/m) tiles, i.e. ceil(outer / ceil(outer/m)), is present; nothing exceeds outer
* chains: a chain is a tuple of loop trip counts (f_1..f_L); a perfect loop takes any
  f | r and leaves r/f; an imperfect loop takes any f in 1..r and leaves ceil(r/f); the
  last trip count is forced to the remainder.
"""


def divisors_between(inner: int, outer: int) -> list[int]:
    return [d for d in range(1, outer + 1) if d % inner == 0 and outer % d == 0]


def ceil_div(a: int, b: int) -> int:
    return -(-a // b)


def required_imperfect(inner: int, outer: int) -> set[int]:
    req = set()
    m = inner
    while m <= outer:
        tiles = ceil_div(outer, m)
        req.add(ceil_div(outer, tiles))
        m += inner
    return req


def chains(n: int, pattern: tuple) -> list[tuple]:
    """All factorisation chains, listed explicitly (iterative, no memo)."""
    L = len(pattern)
    if L == 0:
        return [()]
    out = []
    stack = [((), n)]
    while stack:
        prefix, r = stack.pop()
        i = len(prefix)
        if i == L - 1:
            out.append(prefix + (r,))
            continue
        if pattern[i]:
            fs = range(1, r + 1)
            for f in fs:
                stack.append((prefix + (f,), ceil_div(r, f)))
        else:
            for f in range(1, r + 1):
                if r % f == 0:
                    stack.append((prefix + (f,), r // f))
    return out


def distinct_primes(n: int) -> int:
    c, p = 0, 2
    while p * p <= n:
        if n % p == 0:
            c += 1
            while n % p == 0:
                n //= p
        p += 1
    return c + (1 if n > 1 else 0)


def is_square(n: int) -> bool:
    r = int(n ** 0.5)
    return any((r + d) ** 2 == n for d in (-1, 0, 1))
