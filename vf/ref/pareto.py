"""RefPareto: O(n^2) exact Pareto filter on Python floats.  No accelforge imports.

Row i is dropped iff some j in the same group (equal 'diff' columns) is <= on every min
column, >= on every max column and strictly better on at least one; of exactly duplicated
rows only the lowest index is kept.  *_per_prime_factor goals expand the (positive integer)
column into its prime-exponent vector first, each exponent being a min (resp. max) column.
"""


def _factor(n: int) -> dict:
    f, p = {}, 2
    n = int(n)
    while p * p <= n:
        while n % p == 0:
            f[p] = f.get(p, 0) + 1
            n //= p
        p += 1
    if n > 1:
        f[n] = f.get(n, 0) + 1
    return f


def expand(rows, goals):
    """-> (opt rows as tuples in 'min' sense, group keys)"""
    n = len(rows)
    opt = [[] for _ in range(n)]
    grp = [[] for _ in range(n)]
    for c, g in enumerate(goals):
        col = [r[c] for r in rows]
        if g == "diff":
            for i in range(n):
                grp[i].append(col[i])
        elif g == "min":
            for i in range(n):
                opt[i].append(col[i])
        elif g == "max":
            for i in range(n):
                opt[i].append(-col[i])
        elif g in ("min_per_prime_factor", "max_per_prime_factor"):
            facs = [_factor(v) for v in col]
            primes = sorted({p for f in facs for p in f})
            s = 1 if g.startswith("min") else -1
            for i in range(n):
                for p in primes:
                    opt[i].append(s * facs[i].get(p, 0))
        else:
            raise ValueError(g)
    return [tuple(o) for o in opt], [tuple(g) for g in grp]


def ref_pareto_mask(rows, goals):
    rows = [tuple(r) for r in rows]
    n = len(rows)
    opt, grp = expand(rows, goals)
    keep = [True] * n
    first_seen = {}
    for i in range(n):
        if rows[i] in first_seen:
            keep[i] = False  # exact duplicate of an earlier row
        else:
            first_seen[rows[i]] = i
    for i in range(n):
        if not keep[i]:
            continue
        oi, gi = opt[i], grp[i]
        for j in range(n):
            if j == i or grp[j] != gi:
                continue
            oj = opt[j]
            if all(a <= b for a, b in zip(oj, oi)) and any(a < b for a, b in zip(oj, oi)):
                keep[i] = False
                break
    return keep
