"""RefRoutes: explicit route enumeration on a line (one mesh axis) and on a switch.

No accelforge imports.  Written from the statement of C30 and the docstrings of the
topology models, not from their closed forms:

* The source is *not* distributed: it sits at position 0 of the axis, which is also where
  destination 0 sits ("the set of destinations overlaps the set of sources").
* Destination i (i = 0..n-1) sits at position i*stride; a *link* joins positions p and p+1.
* A value travels along the unique shortest line route from the source to its destination;
  every link traversal is one hop.
* multicast (the loop is irrelevant to the tensor): all n destinations need the *same* value;
  a shared value traverses a link at most once however many destinations lie behind it.
* unicast (relevant loop): every destination needs its *own* value.
* all-to-all switch: every node hangs off one switch by an up-link and a down-link; a
  delivery source -> switch -> destination is ONE hop; the switch replicates a shared value,
  so the source's up-link carries a shared value once and a distinct value once per value.

Everything is counted in units of "one value of the given volume": the functions return
(total link traversals, {link: number of values carried}).  The caller multiplies by the
volume (which may be symbolic).
"""


def mesh_routes(n: int, stride: int, multicast: bool):
    """-> (total_hops, per_link_load dict) in units of one value."""
    load: dict = {}
    total = 0
    if multicast:
        used = set()
        for i in range(n):
            for p in range(0, i * stride):      # links (p, p+1) on the way to destination i
                used.add(p)
        for p in used:                          # the shared value crosses each used link once
            load[p] = 1
            total += 1
    else:
        for i in range(n):
            for p in range(0, i * stride):
                load[p] = load.get(p, 0) + 1    # destination i's own value crosses link p
                total += 1
    return total, load


def switch_routes(n: int, multicast: bool):
    """-> (total_hops, per_link_load dict).  Links: 'up' (source -> switch), ('down', i)."""
    load: dict = {}
    total = 0
    up_values = set()
    for i in range(1, n):                       # destination 0 is the source itself
        total += 1                              # one switch traversal == one hop
        load[("down", i)] = 1
        up_values.add("shared" if multicast else i)
    if up_values:
        load["up"] = len(up_values)
    return total, load


def route(topology: str, n: int, stride: int, multicast: bool):
    if topology == "mesh":
        return mesh_routes(n, stride, multicast)
    if topology == "all_to_all":
        return switch_routes(n, multicast)
    raise ValueError(topology)


# ---------------------------------------------------------------------------------------------
# Nested fanouts (end-to-end family of C30)
#
# A mapping distributes one tensor over the processing elements through a NEST of spatial
# fanouts, outermost first.  Level l = (dim, n, unicast, volume):
#   dim      name of the mesh axis the fanout runs along ("X", "Y", ...);
#   n        number of destinations of the fanout;
#   unicast  True: every destination gets its own tile; False: all get the same tile;
#   volume   size of ONE tile delivered by this level (bits).
# PE placement: along each axis the loop indices of the levels on that axis form a mixed-radix
# number, outermost level most significant, so the destinations of a level are
# stride = prod(n of the deeper levels on the same axis) positions apart and destination 0 sits
# on the level's origin (it needs no transfer).  The source of the outermost level is the
# all-zero coordinate (a non-distributed source).  Delivery is hierarchical and follows the
# nest top to bottom ("the routing follows the order of the spatial nodes"): a level-l tile is
# first brought to its destination, from where level l+1 fans out its parts.
#
# mesh: a link joins positions p and p+1 of one axis at fixed other coordinates; a tile moves
#       along the axis of its level only; a shared tile crosses each link on the way to the
#       farthest destination once.
# all_to_all: every node has an up-link to and a down-link from the one switch; one delivery
#       origin -> switch -> destination is ONE hop; the switch replicates a shared tile.
#
# Returns (total hop volume, {link: volume carried}).  Links carry the sum of everything routed
# over them, whatever the direction (an output tile reduced towards the source uses the links
# of the route its operands would use).
# ---------------------------------------------------------------------------------------------

def nest_routes(topology: str, levels, load=None):
    if topology not in ("mesh", "all_to_all"):
        raise ValueError(topology)
    load = {} if load is None else load
    dims = []
    for d, _n, _u, _v in levels:
        if d not in dims:
            dims.append(d)
    strides = []
    for l, (d, _n, _u, _v) in enumerate(levels):
        s = 1
        for (d2, n2, _u2, _v2) in levels[l + 1:]:
            if d2 == d:
                s *= n2
        strides.append(s)
    total = [0]

    def add(link, volume):
        load[link] = load.get(link, 0) + volume

    def fan(origin, l):
        if l == len(levels):
            return
        d, n, unicast, volume = levels[l]
        k = dims.index(d)
        stride = strides[l]
        dests = []
        for i in range(n):
            c = list(origin)
            c[k] += i * stride
            dests.append(tuple(c))
        if topology == "mesh":
            def link(p):
                c = list(origin)
                c[k] = p
                return (d, tuple(c))            # joins position p and p+1 of axis d
            if unicast:
                for i in range(n):
                    for p in range(origin[k], origin[k] + i * stride):
                        add(link(p), volume)
                        total[0] += volume
            else:
                for p in range(origin[k], origin[k] + (n - 1) * stride):
                    add(link(p), volume)
                    total[0] += volume
        else:
            shared_sent = False
            for i in range(1, n):
                total[0] += volume              # one switch traversal
                add(("down", dests[i]), volume)
                if unicast:
                    add(("up", origin), volume)
                elif not shared_sent:
                    add(("up", origin), volume)
                    shared_sent = True
        for dst in dests:
            fan(dst, l + 1)

    fan(tuple(0 for _ in dims), 0)
    return total[0], load


def busiest_link_per_axis(topology: str, load):
    """{axis: max volume on one link of that axis}; the switch counts as one axis 'switch'."""
    out: dict = {}
    for link, v in load.items():
        axis = link[0] if topology == "mesh" else "switch"
        out[axis] = max(out.get(axis, 0), v)
    return out
