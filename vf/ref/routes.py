"""RefRoutes: explicit route enumeration on a line (one mesh axis) and on a switch.

No accelforge imports.  Written from the statement of C30 and the docstrings of the
topology models, not from their closed forms:

* The source is *not* distributed: it sits at position 0 of the axis, which is also where
  destination 0 sits ("the set of destinations overlaps the set of sources").
* Destination i (i = 0..n-1) sits at position i*stride; a *link* joins positions p and p+1.
* A value travels along the unique shortest line route from the source to its destination;
  every link traversal is one hop.
* multicast (the loop is irrelevant to the tensor): all n destinations need the *same* value;
  a shared value traverses a link at most once however many destinations lie behind it.
* unicast (relevant loop): every destination needs its *own* value.
* all-to-all switch: every node hangs off one switch by an up-link and a down-link; a
  delivery source -> switch -> destination is ONE hop; the switch replicates a shared value,
  so the source's up-link carries a shared value once and a distinct value once per value.

Everything is counted in units of "one value of the given volume": the functions return
(total link traversals, {link: number of values carried}).  The caller multiplies by the
volume (which may be symbolic).
"""


def mesh_routes(n: int, stride: int, multicast: bool):
    """-> (total_hops, per_link_load dict) in units of one value."""
    load: dict = {}
    total = 0
    if multicast:
        used = set()
        for i in range(n):
            for p in range(0, i * stride):      # links (p, p+1) on the way to destination i
                used.add(p)
        for p in used:                          # the shared value crosses each used link once
            load[p] = 1
            total += 1
    else:
        for i in range(n):
            for p in range(0, i * stride):
                load[p] = load.get(p, 0) + 1    # destination i's own value crosses link p
                total += 1
    return total, load


def switch_routes(n: int, multicast: bool):
    """-> (total_hops, per_link_load dict).  Links: 'up' (source -> switch), ('down', i)."""
    load: dict = {}
    total = 0
    up_values = set()
    for i in range(1, n):                       # destination 0 is the source itself
        total += 1                              # one switch traversal == one hop
        load[("down", i)] = 1
        up_values.add("shared" if multicast else i)
    if up_values:
        load["up"] = len(up_values)
    return total, load


def route(topology: str, n: int, stride: int, multicast: bool):
    if topology == "mesh":
        return mesh_routes(n, stride, multicast)
    if topology == "all_to_all":
        return switch_routes(n, multicast)
    raise ValueError(topology)
