"""RefArchTree: paths and instance counts of an architecture tree descriptor.  No accelforge imports.

Tree descriptor (plain JSON)::

    {"nodes": [node, ...]}                      # the Arch: one top-level hierarchy
    node = {"t": "Memory"|"Toll"|"Container"|"Compute", "name": str, "fan": [int, ...], ...}
         | {"t": "Fork"|"Hier", "nodes": [node, ...]}

Semantics (docs/source/guide/spec/architecture.rst):

* a hierarchy is a chain: every node is a parent of the nodes that follow it;
* a Compute placed in a chain is an optional compute path that ends there: it is a side branch,
  not a parent of what follows;
* a Fork branches off the chain: its nodes hang below the nodes that precede the Fork and the
  main chain continues after the Fork as if the Fork were not there;
* a nested (non-Fork) hierarchy is spliced into the chain;
* a spatial fanout on a node duplicates that node and everything below it.

All functions do ONE top-down pass over the whole tree (the code under test instead flattens once
per compute with early exits, and walks a mutable parent list).
"""

BRANCH = ("Fork", "Hier")


def _prod(xs):
    p = 1
    for x in xs:
        p *= x
    return p


def walk(tree):
    """-> dict with
    paths[c]      : names of the non-compute leaves above compute c, top-down, then c
    above[x]      : names of the non-compute leaves above leaf x (x excluded)
    side_before[x]: names of Compute nodes that precede leaf x in its chain or in an enclosing chain
                    (they are NOT above x)
    in_fork[x]    : x sits inside at least one Fork
    order         : leaf names in tree (pre-)order; computes: compute names in tree order
    kind[x]       : node type;  fan[x]: product of x's own fanouts
    """
    out = {"paths": {}, "above": {}, "side_before": {}, "in_fork": {}, "order": [], "computes": [],
           "kind": {}, "fan": {}, "depth": {}}

    def chain(nodes, above, side, in_fork, depth):
        above, side = list(above), list(side)
        for n in nodes:
            t = n["t"]
            if t == "Fork":
                chain(n["nodes"], above, side, True, depth + 1)          # what happens inside stays inside
            elif t == "Hier":
                above, side = chain(n["nodes"], above, side, in_fork, depth + 1)  # spliced into this chain
            else:
                name = n["name"]
                out["order"].append(name)
                out["kind"][name] = t
                out["fan"][name] = _prod(n.get("fan", []))
                out["above"][name] = list(above)
                out["side_before"][name] = list(side)
                out["in_fork"][name] = in_fork
                out["depth"][name] = depth
                if t == "Compute":
                    out["computes"].append(name)
                    out["paths"][name] = above + [name]
                    side.append(name)
                else:
                    above.append(name)
        return above, side

    chain(tree["nodes"], [], [], False, 0)
    return out


def instances(tree):
    """{leaf name: number of instances} = own fanout x fanouts of the non-compute leaves above it."""
    w = walk(tree)
    return {x: w["fan"][x] * _prod(w["fan"][a] for a in w["above"][x]) for x in w["order"]}


def forks_not_containing(tree, compute):
    """number of Fork nodes in the tree that do not contain ``compute``"""
    n = 0

    def has(node):
        if node["t"] in BRANCH:
            return any(has(c) for c in node["nodes"])
        return node["name"] == compute

    def rec(nodes):
        nonlocal n
        for c in nodes:
            if c["t"] in BRANCH:
                if c["t"] == "Fork" and not has(c):
                    n += 1
                rec(c["nodes"])

    rec(tree["nodes"])
    return n


def max_depth(tree):
    def rec(nodes, d):
        return max([d] + [rec(c["nodes"], d + 1) for c in nodes if c["t"] in BRANCH])

    return rec(tree["nodes"], 1)
