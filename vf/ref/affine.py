"""RefAffine: brute-force geometry of small affine workloads.  No accelforge imports.

A projection is ``{"terms": [[var, coef], ...], "const": c}`` meaning sum(coef*var) + c with
distinct variables.  A constraint is ``(projection, n)`` meaning 0 <= projection < n.  All
constraints handled here mention exactly one variable (that is what makes the iteration space
a box); each variable's value set is found by trying every integer in a window that is wider
than anything the generator can produce, so no interval arithmetic is trusted.
"""

from itertools import product

WINDOW = range(-8, 40)


def ev(proj, point):
    return sum(c * point[v] for v, c in proj["terms"]) + proj["const"]


def var_values(constraints, variables):
    """{var: sorted list of admissible integers}.  ``constraints``: list of (proj, n), each
    with exactly one variable."""
    out = {}
    for v in variables:
        mine = [(p, n) for p, n in constraints if [t[0] for t in p["terms"]] == [v]]
        if not mine:
            raise ValueError(f"variable {v} is unbounded")
        vals = [x for x in WINDOW if all(0 <= ev(p, {v: x}) < n for p, n in mine)]
        if vals and (vals[0] == WINDOW[0] or vals[-1] == WINDOW[-1]):
            raise ValueError(f"variable {v} is not bounded inside the window")
        out[v] = vals
    return out


def points(values, order):
    """Enumerate the box as dicts, in the given variable order."""
    for tup in product(*[values[v] for v in order]):
        yield dict(zip(order, tup))


def image(values, order, projs):
    """Set of tuples obtained by projecting every point through the list of projections."""
    return {tuple(ev(p, pt) for p in projs) for pt in points(values, order)}


def is_box(S):
    """A non-empty finite set of integer tuples is a box iff it fills its bounding box."""
    if not S:
        raise ValueError("empty set")
    k = len(next(iter(S)))
    vol = 1
    for d in range(k):
        col = [s[d] for s in S]
        vol *= max(col) - min(col) + 1
    return vol == len(S)


def stride_and_halo(proj, var, values):
    """(step of the rank index per unit step of ``var``,
        extra extent = max - min of the rank index while ``var`` is held fixed)."""
    coef = dict((v, c) for v, c in proj["terms"])[var]
    others = [v for v, _ in proj["terms"] if v != var]
    fixed = values[var][0]
    seen = []
    for tup in product(*[values[v] for v in others]):
        pt = dict(zip(others, tup))
        pt[var] = fixed
        seen.append(ev(proj, pt))
    base = ev(proj, {**{v: values[v][0] for v in others}, var: fixed})
    step = ev(proj, {**{v: values[v][0] for v in others}, var: fixed + 1}) - base
    assert step == coef
    return step, max(seen) - min(seen)
