"""Reference evaluation of scoped arithmetic definitions (C21).

Written from docs/source/guide/parsing/evaluation.rst: the scope of an expression is, in
increasing precedence, the spec-level variables, outer objects, the current object; keys of
the current object may reference each other in any order unless cyclic.  No accelforge
imports.

tree:  ["lit", k] | ["var", name] | ["add", a, b] | ["absdiff", a, b] | ["mul", a, b]
       | ["fdiv", a, k] | ["min", a, b] | ["max", a, b]
All values are non-negative Python ints (absdiff renders as abs(a - b), fdiv divides by a
positive literal), so no expression can fail arithmetically.

scopes: {scope_id: {"parent": scope_id | None, "defs": [[name, tree], ...]}}  (list order =
the key order in which the definitions are written)
"""

from __future__ import annotations


class Cycle(Exception):
    def __init__(self, path):
        super().__init__(" -> ".join(f"{s}.{n}" for s, n in path))
        self.path = path


def render(t) -> str:
    op = t[0]
    if op == "lit":
        return str(t[1])
    if op == "var":
        return t[1]
    if op == "add":
        return f"({render(t[1])} + {render(t[2])})"
    if op == "absdiff":
        return f"abs({render(t[1])} - {render(t[2])})"
    if op == "mul":
        return f"({render(t[1])} * {render(t[2])})"
    if op == "fdiv":
        return f"({render(t[1])} // {t[2]})"
    if op in ("min", "max"):
        return f"{op}({render(t[1])}, {render(t[2])})"
    raise ValueError(op)


def refs(t) -> list[str]:
    if t[0] == "lit":
        return []
    if t[0] == "var":
        return [t[1]]
    out = []
    for x in t[1:]:
        if isinstance(x, list):
            out += refs(x)
    return out


def chain(scopes, sid):
    while sid is not None:
        yield sid
        sid = scopes[sid]["parent"]


def resolve(scopes, sid, name):
    """Innermost scope on sid's chain that defines name (current object shadows outer
    objects, which shadow spec-level variables)."""
    for s in chain(scopes, sid):
        if any(n == name for n, _ in scopes[s]["defs"]):
            return s
    return None


def evaluate_all(scopes) -> dict:
    """-> {(scope, name): value}. Raises Cycle if the definitions are cyclic, KeyError on an
    undefined reference (a generator bug)."""
    defs = {(s, n): t for s, sc in scopes.items() for n, t in sc["defs"]}
    done, active = {}, []

    def ev(t, sid):
        op = t[0]
        if op == "lit":
            return t[1]
        if op == "var":
            s = resolve(scopes, sid, t[1])
            if s is None:
                raise KeyError(f"{t[1]} undefined from {sid}")
            return value(s, t[1])
        a = ev(t[1], sid)
        if op == "fdiv":
            return a // t[2]
        b = ev(t[2], sid)
        if op == "add":
            return a + b
        if op == "absdiff":
            return abs(a - b)
        if op == "mul":
            return a * b
        if op == "min":
            return min(a, b)
        if op == "max":
            return max(a, b)
        raise ValueError(op)

    def value(s, n):
        if (s, n) in done:
            return done[(s, n)]
        if (s, n) in active:
            raise Cycle(active[active.index((s, n)):] + [(s, n)])
        active.append((s, n))
        v = ev(defs[(s, n)], s)
        active.pop()
        done[(s, n)] = v
        return v

    for (s, n) in defs:
        value(s, n)
    return done


def dependency_edges(scopes):
    """[( (scope,name), (scope,name) )] resolved dependency edges."""
    out = []
    for s, sc in scopes.items():
        for n, t in sc["defs"]:
            for r in refs(t):
                rs = resolve(scopes, s, r)
                if rs is not None:
                    out.append(((s, n), (rs, r)))
    return out


def longest_chain(scopes) -> int:
    """Number of definitions on the longest dependency chain (acyclic input)."""
    edges = {}
    for a, b in dependency_edges(scopes):
        edges.setdefault(a, []).append(b)
    memo = {}

    def d(x):
        if x not in memo:
            memo[x] = 1 + max((d(y) for y in edges.get(x, [])), default=0)
        return memo[x]

    nodes = [(s, n) for s, sc in scopes.items() for n, _ in sc["defs"]]
    return max((d(x) for x in nodes), default=0)
