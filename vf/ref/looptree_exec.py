"""RefExec: a literal loop-nest executor (no accelforge imports).

It *executes* a concrete LoopTree element by element and counts, per (component, tensor),
the values read and written, the compute operations, and the allocation log of every memory.
Written from the property statements C05/C06/C31 and the modelling docs:

* every storage node refetches its tile whenever an enclosing loop advances (fill: one read at
  the parent holder, one write here, per value);
* outputs are written back to the parent when the storage node's scope ends (one read here,
  one write at the parent, per value);
* the compute unit reads every operand of an operation from its innermost holder and writes
  the output back to its innermost holder;
* the first read of a never-written output value is skipped: a consumer (a memory level, or
  the compute unit) that brings an output element in for the first time finds no written
  value for it.  Flag rule (skip_initial_output_write, default True everywhere): the read at
  source P by child C is skipped iff P.skip and C.skip; the fill write into C is skipped iff
  C.skip;
* a Toll between two holders charges one read per value crossing it in a configured
  direction (down = fills and operand reads, up = write-backs and result writes), never a
  write, never occupancy.  A first fill that the child skips does not cross;
* values -> actions: values / values_per_action, with values_per_action taken from the
  action, else from the component, else bits_per_action(action, else component, else 1) /
  bits_per_value(component override, else workload);
* energy = sum(actions x per-action energy) + sum(leak power) x latency; latency = max over
  components of sum_actions n/throughput; compute latency = ops / throughput;
* occupancy: entering a storage node allocates its tile (x bits per value), leaving frees it.

Tree format (top-down list):
  {"k": "storage", "level": L, "tensors": [..]}       # level kind (memory/toll) is in comps
  {"k": "loop", "rv": r, "tile": T}
  {"k": "seq", "branches": [[...], [...]]}
  {"k": "compute", "einsum": E, "level": C}
einsums: {E: [(tensor, [rank vars], is_output), ...]}, bounds: {rv: n}
comps: {name: {"kind": "memory"|"toll"|"compute", "order": i, "size": bits, "skip": bool,
               "direction": {tensor: "up"|"down"|"up_and_down"},
               "actions": {"read": {"energy": e, "throughput": t, "bits_per_action": b|None,
                                    "values_per_action": {tensor: v}}, ...},
               "bits_per_value": {tensor: b}, "bits_per_action": b|None,
               "values_per_action": {tensor: v}, "leak": p}}
wl_bits: {tensor: bits}
"""

from __future__ import annotations

import itertools
import math
from collections import defaultdict


class Result:
    def __init__(self):
        self.values = defaultdict(float)      # (level, tensor, "read"|"write") -> values
        self.ops = defaultdict(int)           # (level, einsum) -> operations
        self.peak_bits = defaultdict(float)   # memory -> peak live bits
        self.live_bits = defaultdict(float)
        self.refetched = False                # some tensor was fetched more than its size
        self.output_revisited = False         # some output tile was brought in again after being written
        self.alloc_log = []


def _box(proj, ranges):
    return itertools.product(*[range(ranges[v][0], ranges[v][0] + ranges[v][1]) for v in proj])


def _box_size(proj, ranges):
    return math.prod(ranges[v][1] for v in proj)


class Executor:
    def __init__(self, einsums, bounds, comps, wl_bits, persistent=(), n_instances=1):
        self.einsums = einsums
        self.bounds = bounds
        self.comps = comps
        self.wl_bits = wl_bits
        self.res = Result()
        self.touched = defaultdict(set)     # (consumer level, tensor) -> output elements already brought in
        self.written = defaultdict(set)     # tensor -> output elements with a written partial value
        self.proj = {}
        self.is_output = {}
        for e, tl in einsums.items():
            for t, p, o in tl:
                self.proj[(e, t)] = list(p)
                if o:
                    self.is_output[(e, t)] = True
        self.persistent = set(persistent)
        self.pending = []
        self.n_instances = n_instances

    # -- helpers ------------------------------------------------------------
    def bpv(self, level, tensor):
        c = self.comps[level]
        return c.get("bits_per_value", {}).get(tensor, self.wl_bits[tensor])

    def _path_holders(self, path, tensor):
        """holders of `tensor` on the current path, outermost first: [(level, kind)]"""
        return [(lv, self.comps[lv]["kind"]) for lv, ts in path if tensor in ts]

    def _charge_tolls(self, tolls, tensor, direction, n):
        for lv in tolls:
            d = self.comps[lv].get("direction", {})
            d = d.get(tensor, "up_and_down") if isinstance(d, dict) else d
            if d == "up_and_down" or d == direction:
                self.res.values[(lv, tensor, "read")] += n

    def _split(self, holders):
        """-> (innermost memory level or None, tolls below it (outer->inner))"""
        mem, tolls = None, []
        for lv, kind in holders:
            if kind == "memory":
                mem, tolls = lv, []
            else:
                tolls.append(lv)
        return mem, tolls

    # -- execution ------------------------------------------------------------
    def run(self, tree, einsum_of_branch=None):
        ranges = {rv: (0, b) for rv, b in self.bounds.items()}
        self._exec(tree, 0, ranges, [], None)
        return self.res

    def _einsum_below(self, nodes):
        for n in nodes:
            if n["k"] == "compute":
                return [n["einsum"]]
            if n["k"] == "seq":
                out = []
                for b in n["branches"]:
                    out += self._einsum_below(b)
                return out
        return []

    def _exec(self, nodes, i, ranges, path, _):
        if i >= len(nodes):
            return
        n = nodes[i]
        k = n["k"]
        if k == "loop":
            rv, tile = n["rv"], n["tile"]
            start, size = ranges[rv]
            for s in range(start, start + size, tile):
                r2 = dict(ranges)
                r2[rv] = (s, min(tile, start + size - s))
                self._exec(nodes, i + 1, r2, path, None)
        elif k in ("storage", "toll"):
            self._storage(nodes, i, ranges, path)
        elif k == "seq":
            for b in n["branches"]:
                leaf = not any(x["k"] == "seq" for x in b)
                if leaf:
                    for d in self.pending:
                        if d["count"] == d["first"]:
                            self._alloc(d["level"], d["tensor"], d["bits"])
                self._exec(b, 0, ranges, path, None)
                if leaf:
                    for d in self.pending:
                        if d["count"] == d["last"]:
                            self._free(d["level"], d["tensor"], d["bits"])
                        d["count"] += 1
        elif k == "compute":
            self._compute(n, ranges, path)
        else:
            raise ValueError(k)

    def _tensor_einsums(self, tensor, below):
        return [e for e in below if (e, tensor) in self.proj]

    def _storage(self, nodes, i, ranges, path):
        n = nodes[i]
        level = n["level"]
        kind = self.comps[level]["kind"]
        below = self._einsum_below(nodes[i + 1:])
        done = []
        my_pending = []
        for t in n["tensors"]:
            es = self._tensor_einsums(t, below)
            if not es:
                continue
            proj = self.proj[(es[0], t)]
            writers = [e for e in es if self.is_output.get((e, t))]
            holders = self._path_holders(path, t)
            parent, tolls = self._split(holders)
            if kind == "toll":
                done.append((t, None, None, None, None, 0))
                continue
            tile = set(_box(proj, ranges))
            nvals = len(tile)
            bits = nvals * self.bpv(level, t)
            # occupancy: a node directly above a split (no loop in between) holds its tile only
            # from the first to the last branch that uses the tensor; otherwise for its whole scope
            if n.get("persistent"):
                # persistent tensors live throughout and are held once per workload instance
                bits = bits * self.n_instances
            deferred = self._directly_above_seq(nodes, i) and not n.get("persistent")
            if deferred:
                leafs = self._leaf_seq(nodes, i + 1, ranges)
                users = [j for j, e in enumerate(leafs) if (e, t) in self.proj]
                if users:
                    self.pending.append({"level": level, "tensor": t, "bits": bits, "count": 0,
                                         "first": users[0], "last": users[-1], "node": id(n)})
                    my_pending.append(self.pending[-1])
                bits = 0
            else:
                self._alloc(level, t, bits)
            if parent is not None:
                # fill from the parent holder
                is_out = bool(writers)
                if is_out:
                    key = (level, t)
                    new = tile - self.touched[key]
                    if len(new) < nvals:
                        self.res.output_revisited = True
                    self.touched[key] |= tile
                    skip_child = self.comps[level].get("skip", True)
                    skip_parent = self.comps[parent].get("skip", True)
                    sk_w = len(new) if skip_child else 0
                    sk_r = len(new) if (skip_child and skip_parent) else 0
                else:
                    sk_w = sk_r = 0
                self.res.values[(parent, t, "read")] += nvals - sk_r
                self.res.values[(level, t, "write")] += nvals - sk_w
                self._charge_tolls(tolls, t, "down", nvals - sk_w)
            done.append((t, parent, tolls, nvals, bool(writers), bits))
        self._exec(nodes, i + 1, ranges, path + [(level, list(n["tensors"]))], None)
        for t, parent, tolls, nvals, is_out, bits in done:
            if nvals is None:
                continue
            if parent is not None and is_out:
                self.res.values[(level, t, "read")] += nvals
                self.res.values[(parent, t, "write")] += nvals
                self._charge_tolls(tolls, t, "up", nvals)
            if bits:
                self._free(level, t, bits)
        for d in my_pending:
            self.pending.remove(d)

    def _leaf_seq(self, nodes, i, ranges):
        """einsum names of the leaf-branch executions below nodes[i:], in execution order; a leaf
        branch (a split branch without a nested split) counts once, whatever loops it contains"""
        out = []
        if i >= len(nodes):
            return out
        n = nodes[i]
        if n["k"] == "loop":
            trips = -(-ranges[n["rv"]][1] // n["tile"])
            r2 = dict(ranges)
            r2[n["rv"]] = (ranges[n["rv"]][0], min(n["tile"], ranges[n["rv"]][1]))
            return self._leaf_seq(nodes, i + 1, r2) * trips
        if n["k"] == "seq":
            for b in n["branches"]:
                if any(x["k"] == "seq" for x in b):
                    out += self._leaf_seq(b, 0, ranges)
                else:
                    out += self._einsum_below(b)
            return out
        if n["k"] == "compute":
            return [n["einsum"]]
        return self._leaf_seq(nodes, i + 1, ranges)

    def _alloc(self, level, t, bits):
        self.res.live_bits[level] += bits
        self.res.peak_bits[level] = max(self.res.peak_bits[level], self.res.live_bits[level])
        self.res.alloc_log.append(("alloc", level, t, bits))

    def _free(self, level, t, bits):
        self.res.live_bits[level] -= bits
        self.res.alloc_log.append(("free", level, t, bits))

    @staticmethod
    def _directly_above_seq(nodes, i):
        for n in nodes[i + 1:]:
            if n["k"] == "loop":
                return False
            if n["k"] == "seq":
                return True
            if n["k"] == "compute":
                return False
        return False

    def _compute(self, n, ranges, path):
        e, level = n["einsum"], n["level"]
        tl = self.einsums[e]
        rvs = sorted({v for _, p, _ in tl for v in p})
        nops = math.prod(ranges[v][1] for v in rvs)
        self.res.ops[(level, e)] += nops
        cskip = self.comps[level].get("skip", True)
        for t, proj, is_out in tl:
            holders = self._path_holders(path, t)
            mem, tolls = self._split(holders)
            if mem is None:
                raise ValueError(f"tensor {t} has no holder above compute {e}")
            others = [v for v in rvs if v not in proj]
            rep = math.prod(ranges[v][1] for v in others)
            elems = list(_box(proj, ranges))
            if not is_out:
                cnt = len(elems) * rep
                self.res.values[(mem, t, "read")] += cnt
                self._charge_tolls(tolls, t, "down", cnt)
            else:
                key = (level, t)
                mskip = self.comps[mem].get("skip", True)
                for el in elems:
                    reads = rep
                    first = el not in self.touched[key]
                    self.touched[key].add(el)
                    sk_r = 1 if (first and cskip and mskip) else 0
                    sk_c = 1 if (first and cskip) else 0
                    self.res.values[(mem, t, "read")] += reads - sk_r
                    self._charge_tolls(tolls, t, "down", reads - sk_c)
                    self.res.values[(mem, t, "write")] += rep
                    self._charge_tolls(tolls, t, "up", rep)


# ---------------------------------------------------------------------------
# values -> actions -> energy / latency
# ---------------------------------------------------------------------------

def values_per_action(comp, action, tensor, wl_bits):
    a = comp["actions"][action]
    if tensor in (a.get("values_per_action") or {}):
        return a["values_per_action"][tensor]
    if tensor in (comp.get("values_per_action") or {}):
        return comp["values_per_action"][tensor]
    bpv = (comp.get("bits_per_value") or {}).get(tensor, wl_bits[tensor])
    bpa = a.get("bits_per_action")
    if bpa is None:
        bpa = comp.get("bits_per_action")
    if bpa is None:
        bpa = 1
    return bpa / bpv


def summarize(res: Result, comps, wl_bits, n_instances=1):
    """-> dict with actions[(level, tensor, action)], compute[(level, einsum)], latency[level],
    total_latency, energy[(level,tensor,action)], dynamic_energy, leak_energy, total_energy"""
    actions = {}
    for (lv, t, a), v in res.values.items():
        c = comps[lv]
        if a not in c["actions"]:
            if v:
                raise ValueError(f"{lv} has no action {a} but {v} values were counted")
            continue
        actions[(lv, t, a)] = v / values_per_action(c, a, t, wl_bits) * c.get("actions_scale", 1)
    lat = {}
    for lv, c in comps.items():
        tot = 0.0
        if c["kind"] == "compute":
            n = sum(v for (l, e), v in res.ops.items() if l == lv) * c.get("actions_scale", 1)
            tp = c["actions"]["compute"]["throughput"]
            tot = 0.0 if math.isinf(tp) else n / tp
        else:
            for aname, a in c["actions"].items():
                n = sum(v for (l, t, an), v in actions.items() if l == lv and an == aname)
                tp = a["throughput"]
                tot += 0.0 if math.isinf(tp) else n / tp
        lat[lv] = tot
    total_lat = max([0.0] + list(lat.values()))
    energy = {}
    for (lv, t, a), v in actions.items():
        energy[(lv, t, a)] = v * comps[lv]["actions"][a]["energy"]
    comp_energy = {}
    for (lv, e), v in res.ops.items():
        comp_energy[(lv, e)] = v * comps[lv].get("actions_scale", 1) * comps[lv]["actions"]["compute"]["energy"]
    dyn = sum(energy.values()) + sum(comp_energy.values())
    leak = sum(c.get("leak", 0) for c in comps.values()) * total_lat
    k = n_instances
    return {
        "actions": {key: v * k for key, v in actions.items()},
        "compute": {key: v * comps[key[0]].get("actions_scale", 1) * k for key, v in res.ops.items()},
        "latency": {lv: v * k for lv, v in lat.items()},
        "total_latency": total_lat * k,
        "dynamic_energy": dyn * k,
        "leak_energy": leak * k,
        "total_energy": (dyn + leak) * k,
        "peak_bits": dict(res.peak_bits),
    }
