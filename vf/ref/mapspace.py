"""RefSpace: brute-force enumeration of the documented mapspace of a tiny single-Einsum spec
(no accelforge imports).  Universe rules, each tied to the documentation:

R1 storage choice: every lower memory keeps its `keep` set and any subset of `may_keep`; the
   outermost memory holds every tensor (single-Einsum specs have no intermediates).  Storage
   nodes of a higher memory come before those of a lower memory (force_memory_hierarchy_order,
   default True), in any order within one memory.
R2 the outermost memory's nodes sit above all loops (_can_lower_outermost_memory=False).
R4 canonical loop structure: with S storage nodes below the top there are S+1 blocks; each
   block has one loop factor f[r,b] >= 1 per rank variable with prod_b f[r,b] = bound(r); a
   factor 1 is "no loop".  Because every storage node refetches its tile on every iteration of
   every enclosing loop, two loops of one variable inside a storage-free block equal one loop
   with the product, and the order of loops inside a block does not change any count for
   single-variable projections -- so this covers "any loop order, any perfectly factorising
   tile shapes".  Two adjacent storage nodes with an empty block between them commute, so only
   the sorted order of such a pair is generated.

A member is a tree in the vf.ref.looptree_exec format.
"""

from __future__ import annotations

import itertools


def ordered_factorizations(n: int, k: int):
    """all tuples (f_1..f_k) of positive ints with product n"""
    if k == 1:
        yield (n,)
        return
    for d in range(1, n + 1):
        if n % d == 0:
            for rest in ordered_factorizations(n // d, k - 1):
                yield (d,) + rest


def storage_sequences(levels):
    """levels: list of (level name, must_keep tensors, may_keep tensors) for the LOWER memories in
    hierarchy order.  Yields sequences [(level, tensor), ...] (top-down)."""
    per_level = []
    for name, must, may in levels:
        opts = []
        extra = [t for t in may if t not in must]
        for r in range(len(extra) + 1):
            for sub in itertools.combinations(extra, r):
                kept = list(must) + list(sub)
                for perm in itertools.permutations(kept):
                    opts.append([(name, t) for t in perm])
        per_level.append(opts)
    for combo in itertools.product(*per_level):
        yield [x for part in combo for x in part]


def members(einsum, tensors, rank_vars, bounds, top_level, levels, compute_level, limit=None):
    """einsum: name; tensors: list of tensor names; levels as in storage_sequences.
    Yields trees.  If `limit` is given, stops after that many members (caller labels it sampled)."""
    n = 0
    for seq in storage_sequences(levels):
        S = len(seq)
        per_var = [list(ordered_factorizations(bounds[r], S + 1)) for r in rank_vars]
        for combo in itertools.product(*per_var):
            # combo[i][b] = factor of rank var i in block b
            # canonical order of commuting storage nodes
            ok = True
            for b in range(1, S):
                if all(combo[i][b] == 1 for i in range(len(rank_vars))):
                    # block b (between storage b-1 and storage b) empty -> require sorted pair
                    if seq[b - 1][0] == seq[b][0] and seq[b - 1] > seq[b]:
                        ok = False
                        break
            if not ok:
                continue
            tree = [{"k": "storage", "level": top_level, "tensors": list(tensors)}]
            rem = {r: bounds[r] for r in rank_vars}
            for b in range(S + 1):
                for i, r in enumerate(rank_vars):
                    f = combo[i][b]
                    if f > 1:
                        rem[r] //= f
                        tree.append({"k": "loop", "rv": r, "tile": rem[r]})
                if b < S:
                    tree.append({"k": "storage", "level": seq[b][0], "tensors": [seq[b][1]]})
            tree.append({"k": "compute", "einsum": einsum, "level": compute_level})
            yield tree
            n += 1
            if limit is not None and n >= limit:
                return


def count_members(rank_vars, bounds, levels):
    total = 0
    for seq in storage_sequences(levels):
        S = len(seq)
        c = 1
        for r in rank_vars:
            c *= sum(1 for _ in ordered_factorizations(bounds[r], S + 1))
        total += c
    return total
