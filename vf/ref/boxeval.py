"""Reference evaluator for C09: formula trees over integer boxes (stdlib only, no sympy, no accelforge).

A formula is a JSON tree:
    ["sym", name] | ["int", n] | ["rat", p, q] | ["flt", x]
    ["add", t...] | ["mul", t...] | ["pow", base, exponent-tree]
    ["max", t...] | ["min", t...] | ["ceil", t] | ["floor", t]
    ["heav", t] | ["heav", t, value_at_zero]      (Heaviside; value at 0 defaults to 1/2)
    ["opaque", text]                               (anything else: not evaluable)

Values are exact (fractions.Fraction) as long as no float literal and no non-integer power
is involved, otherwise Python floats (float64).  Next to the value a *magnitude* is
computed (the same tree with every literal replaced by its absolute value and Max/Min by
the largest branch); comparisons of inexact values use eps = 1e-9 * magnitude, exact values
are compared exactly.
"""

from __future__ import annotations

import itertools
import math
import random
from fractions import Fraction

REL_EPS = 1e-9
EXHAUSTIVE_LIMIT = 50_000
N_SAMPLES = 20_000


class Unevaluable(Exception):
    pass


# ---------------------------------------------------------------------------
# structure
# ---------------------------------------------------------------------------

def walk(t):
    yield t
    if t[0] in ("add", "mul", "max", "min", "ceil", "floor", "pow", "heav"):
        for c in t[1:]:
            if isinstance(c, list):
                yield from walk(c)


def symbols_of(t) -> list[str]:
    return sorted({n[1] for n in walk(t) if n[0] == "sym"})


def _neg_literal(n) -> bool:
    return (n[0] == "int" and n[1] < 0) or (n[0] == "rat" and n[1] * n[2] < 0) or (n[0] == "flt" and float(n[1]) < 0)


def features(t) -> dict:
    """Shape class of a formula (for labels and the non-triviality rule)."""
    f = {"max": False, "min": False, "ceil": False, "floor": False, "heav": False, "flt": False,
         "recip": False, "neg": False, "opaque": False, "size": 0}
    def rec(n):
        f["size"] += 1
        k = n[0]
        if k in ("max", "min", "ceil", "floor", "heav", "flt", "opaque"):
            f[k] = True
        if k in ("int", "rat", "flt") and _neg_literal(n):
            f["neg"] = True      # a negative coefficient / constant (exponents are not visited)
        if k == "pow":
            if _neg_literal(n[2]):
                f["recip"] = True
            rec(n[1])
            if n[2][0] not in ("int", "rat", "flt"):
                rec(n[2])
        elif k in ("add", "mul", "max", "min", "ceil", "floor", "heav"):
            for c in n[1:]:
                rec(c)

    rec(t)
    f["nsym"] = len(symbols_of(t))
    return f


def shape_class(t) -> str:
    f = features(t)
    parts = [k for k in ("max", "min", "ceil", "floor", "heav", "recip", "neg", "flt", "opaque") if f[k]]
    return "+".join(parts) if parts else "posynomial-int"


# ---------------------------------------------------------------------------
# compilation (tree -> python closure via generated source; only whitelisted nodes)
# ---------------------------------------------------------------------------

def _pow(b, e):
    if isinstance(e, Fraction) and e.denominator == 1:
        e = int(e)
    if isinstance(e, int):
        if b == 0 and e < 0:
            raise Unevaluable("division by zero")
        return b ** e
    b, e = float(b), float(e)
    if b < 0 or (b == 0 and e < 0):
        raise Unevaluable("non-integer power of a non-positive base")
    return b ** e


def _ceil(x):
    return Fraction(math.ceil(x))


def _floor(x):
    return Fraction(math.floor(x))


def _heav(x, h0=Fraction(1, 2)):
    return Fraction(1) if x > 0 else (Fraction(0) if x < 0 else h0)


_ENV = {"F": Fraction, "_pow": _pow, "_ceil": _ceil, "_floor": _floor, "_heav": _heav, "max": max, "min": min,
        "abs": abs, "__builtins__": {}}


def _lit(n, absolute=False):
    k = n[0]
    if k == "int":
        v = int(n[1])
        return f"F({abs(v) if absolute else v})"
    if k == "rat":
        p, q = int(n[1]), int(n[2])
        if q == 0:
            raise Unevaluable("zero denominator literal")
        if q < 0:
            p, q = -p, -q
        return f"F({abs(p) if absolute else p},{q})"
    if k == "flt":
        x = float(n[1])
        if math.isnan(x) or math.isinf(x):
            raise Unevaluable("non-finite literal")
        return "(" + repr(abs(x) if absolute else x) + ")"
    raise KeyError(k)


def _src(t, idx, mag=False):
    k = t[0]
    if k == "sym":
        return f"v[{idx[t[1]]}]"
    if k in ("int", "rat", "flt"):
        return _lit(t, absolute=mag)
    if k == "add":
        return "(" + "+".join(_src(c, idx, mag) for c in t[1:]) + ")" if len(t) > 1 else "F(0)"
    if k == "mul":
        return "(" + "*".join(_src(c, idx, mag) for c in t[1:]) + ")" if len(t) > 1 else "F(1)"
    if k == "pow":
        base = ("abs(" + _src(t[1], idx, False) + ")") if mag else _src(t[1], idx, False)
        return f"_pow({base},{_src(t[2], idx, False)})"
    if k in ("max", "min"):
        if len(t) < 2:
            raise Unevaluable("empty Max/Min")
        if mag:
            return "max(" + ",".join(_src(c, idx, True) for c in t[1:]) + ",F(0))"
        if len(t) == 2:
            return _src(t[1], idx, False)
        return f"{k}(" + ",".join(_src(c, idx, False) for c in t[1:]) + ")"
    if k in ("ceil", "floor"):
        if mag:
            return "(" + _src(t[1], idx, True) + "+F(1))"
        return f"_{k}({_src(t[1], idx, False)})"
    if k == "heav":
        if mag:
            return "F(1)"
        if len(t) > 2:
            return f"_heav({_src(t[1], idx, False)},{_src(t[2], idx, False)})"
        return f"_heav({_src(t[1], idx, False)})"
    raise Unevaluable(f"node {k!r} is not evaluable")


def compile_tree(t, names: list[str]):
    """-> (value(v), magnitude(v)) where v is a tuple of Fractions in the order of ``names``."""
    idx = {n: i for i, n in enumerate(names)}
    for s in symbols_of(t):
        if s not in idx:
            raise Unevaluable(f"symbol {s} has no bounds")
    fv = eval("lambda v: " + _src(t, idx, False), dict(_ENV))  # noqa: S307 - generated from whitelisted nodes only
    fm = eval("lambda v: " + _src(t, idx, True), dict(_ENV))  # noqa: S307
    return fv, fm


def _eps(value, mag):
    if isinstance(value, (Fraction, int)):
        return 0
    return REL_EPS * float(mag)


# ---------------------------------------------------------------------------
# box enumeration
# ---------------------------------------------------------------------------

def box_size(bounds) -> int:
    n = 1
    for _, lo, hi in bounds:
        n *= max(0, hi - lo + 1)
    return n


def _points(bounds, seed):
    """-> (iterable of integer tuples, sampled?)"""
    ranges = [range(lo, hi + 1) for _, lo, hi in bounds]
    if box_size(bounds) <= EXHAUSTIVE_LIMIT:
        return itertools.product(*ranges), False
    rng = random.Random(seed)
    corners = itertools.product(*[(lo, hi) for _, lo, hi in bounds]) if len(bounds) <= 12 else iter(())
    pts = list(itertools.islice(corners, 4096))
    pts += [tuple(rng.randint(lo, hi) for _, lo, hi in bounds) for _ in range(N_SAMPLES)]
    return pts, True


# ---------------------------------------------------------------------------
# oracles
# ---------------------------------------------------------------------------

def sign_scan(tree, bounds, seed=0) -> dict:
    """Evaluate the formula on the box (bounds: [(name, lo, hi)] of the formula's symbols).
    -> {"n", "sampled", "exact", "neg": first point with f < -eps or None, "pos": ..., "nonzero": ...}"""
    names = [b[0] for b in bounds]
    fv, fm = compile_tree(tree, names)
    pts, sampled = _points(bounds, seed)
    out = {"n": 0, "sampled": sampled, "exact": True, "neg": None, "pos": None}
    for p in pts:
        v = tuple(Fraction(x) for x in p)
        try:
            val = fv(v)
        except ZeroDivisionError:
            raise Unevaluable("division by zero")
        out["n"] += 1
        eps = _eps(val, fm(v))
        if not isinstance(val, (Fraction, int)):
            out["exact"] = False
        if val < -eps and out["neg"] is None:
            out["neg"] = (list(p), float(val))
        if val > eps and out["pos"] is None:
            out["pos"] = (list(p), float(val))
    return out


def monotone_scan(tree, bounds, sym, seed=0) -> dict:
    """Walk every lattice line along ``sym`` (other symbols fixed).
    -> {"n", "sampled", "exact", "down": first (point, f(p), f(p+e)) with a decrease beyond eps or None, "up": ...}"""
    names = [b[0] for b in bounds]
    out = {"n": 0, "sampled": False, "exact": True, "down": None, "up": None}
    if sym not in names:
        # the formula does not depend on sym (or sym has no bounds): constant along sym
        sign_scan(tree, bounds, seed)  # still must be evaluable
        return out
    fv, fm = compile_tree(tree, names)
    k = names.index(sym)
    lo_s, hi_s = bounds[k][1], bounds[k][2]
    others = [b for i, b in enumerate(bounds) if i != k]
    line = hi_s - lo_s + 1
    if box_size(bounds) <= EXHAUSTIVE_LIMIT:
        bases = itertools.product(*[range(lo, hi + 1) for _, lo, hi in others])
    else:
        out["sampled"] = True
        rng = random.Random(seed)
        bl = list(itertools.islice(itertools.product(*[(lo, hi) for _, lo, hi in others]), 1024))
        bl += [tuple(rng.randint(lo, hi) for _, lo, hi in others) for _ in range(max(1, N_SAMPLES // max(1, line)))]
        bases = bl
    for base in bases:
        prev = None
        for x in range(lo_s, hi_s + 1):
            p = list(base[:k]) + [x] + list(base[k:])
            v = tuple(Fraction(y) for y in p)
            try:
                val = fv(v)
            except ZeroDivisionError:
                raise Unevaluable("division by zero")
            out["n"] += 1
            exact = isinstance(val, (Fraction, int))
            mag = 0 if exact else float(fm(v))
            if not exact:
                out["exact"] = False
            if prev is not None:
                pval, pmag, pp = prev
                eps = 0 if (exact and isinstance(pval, (Fraction, int))) else REL_EPS * (float(mag) + float(pmag))
                d = val - pval
                if d < -eps and out["down"] is None:
                    out["down"] = (pp, float(pval), float(val))
                if d > eps and out["up"] is None:
                    out["up"] = (pp, float(pval), float(val))
            prev = (val, mag, p)
    return out
