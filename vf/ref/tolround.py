"""RefTolRound: the tolerance rounding that table pruning is documented to apply, with
explicit uncertainty.  No accelforge imports.

Documented behaviour (pareto.py docstrings/comments, ffm.py):
  * an objective column with tolerance t > 0 is snapped to the nearest point of the
    logarithmic grid {(1+t)^n}; columns containing a value <= 0 are left alone;
  * a reservation column with relative tolerance t and absolute tolerance a is snapped
      - to the nearest multiple of a                       if t == 0,
      - to the log grid                                    if a == 0,
      - element-wise to the log grid where t*x > a, else to the multiple of a, if both > 0;
  * tolerance 0 / 0 leaves the column alone.

The code computes this in float32 or float64 depending on the column dtype, so a value that
sits within `margin` (in grid-index units) of a rounding boundary may legitimately go either
way.  `round_column` therefore returns, per element, the *set* of grid points it may land on.
A candidate is a tuple (tag, index, value): tag in {"raw", "log", "abs"}; two candidates with
the same tag and index are the same floating-point number in the code, too (it is a pure
function of the index), which is what makes exact ties decidable.
"""

import math

LOG_MARGIN = 5e-3
ABS_MARGIN = 2e-3
EPS = 1e-5


def _nearest(q, margin):
    n = math.floor(q + 0.5)
    out = [n]
    frac = q - n
    if frac > 0.5 - margin:
        out.append(n + 1)
    if frac < -0.5 + margin:
        out.append(n - 1)
    return out


def log_cands(x, t):
    q = math.log(x) / math.log(1.0 + t)
    return [("log", n, (1.0 + t) ** n) for n in _nearest(q, LOG_MARGIN)]


def abs_cands(x, a):
    return [("abs", k, k * a) for k in _nearest(x / a, ABS_MARGIN)]


def round_column(values, t, a=0.0):
    """-> list (per element) of candidate lists."""
    t = t or 0.0
    a = a or 0.0
    if t == 0 and a == 0:
        return [[("raw", x, x)] for x in values]
    positive = min(values) > 0
    if t == 0:
        return [abs_cands(x, a) for x in values]

    def log_or_raw(x):
        return log_cands(x, t) if positive else [("raw", x, x)]

    if a == 0:
        return [log_or_raw(x) for x in values]
    out = []
    for x in values:
        s = t * x
        if abs(s - a) <= 1e-6 * a:
            out.append(log_or_raw(x) + abs_cands(x, a))
        elif s > a:
            out.append(log_or_raw(x))
        else:
            out.append(abs_cands(x, a))
    return out


def _le1(p, q, strict):
    if p[0] == q[0]:
        return p[1] < q[1] if strict else p[1] <= q[1]
    m = EPS * max(abs(p[2]), abs(q[2]), 1e-30)
    return p[2] + m < q[2] - m


def sure_le(A, B):
    """every candidate of A is certainly <= every candidate of B"""
    return all(_le1(p, q, False) for p in A for q in B)


def sure_lt(A, B):
    return all(_le1(p, q, True) for p in A for q in B)


def upper_bound(d, t, a=0.0, slack=1e-4):
    """Largest value a kept row may have in this column and still 'cover' a dropped row with
    value d: within a factor (1+t) plus the absolute slack a.  (Implied by the rounding above:
    r(k) <= r(d), k <= r(k)*sqrt(1+t) or r(k)+a/2, r(d) <= d*sqrt(1+t) or d+a/2.)"""
    t = t or 0.0
    a = a or 0.0
    if t == 0 and a == 0:
        return d
    return (d * (1.0 + t) + a) * (1.0 + slack) + 1e-12
