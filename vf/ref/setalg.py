"""Reference set algebra for accelforge set expressions (C22, C29).

Written from docs/source/guide/parsing/evaluation.rst ("Set Expressions") and
docs/source/guide/spec/workload.rst ("Renaming Tensors and Rank Variables"); no
accelforge imports.

A *workload descriptor* is plain JSON:

    {"tensors": {"T0": {"rv": ["m", "k"], "persistent": false}, ...},
     "einsums": [{"name": "E0", "inputs": ["T0", "T1"], "output": "T2"}, ...]}

A *tree* is a nested list:

    ["name", "Inputs"]          a named set / tensor name / rank variable / rename name
    ["not", t]                  ~t           (complement inside the Einsum's universe)
    ["and", l, r]  ["or", l, r]  ["sub", l, r]  ["xor", l, r]      & | - ^
    ["rv", t]                   t.rank_variables  (tensor set -> rank-variable set)

Values are ``(space, frozenset)`` with space "T" (tensors) or "R" (rank variables), so a
complement knows its universe.
"""

from __future__ import annotations

BASE_SETS = ["All", "Tensors", "Inputs", "Outputs", "Intermediates", "Shared", "Persistent", "Nothing"]

# Python operator precedence (higher binds tighter): ~ > - > & > ^ > |
_PREC = {"or": 1, "xor": 2, "and": 3, "sub": 4, "not": 5, "name": 6, "rv": 6}
_SYM = {"or": "|", "xor": "^", "and": "&", "sub": "-"}


class RefError(Exception):
    """The reference cannot evaluate the tree (undefined name, mixed spaces)."""


def einsum_by_name(wl: dict, name: str) -> dict:
    for e in wl["einsums"]:
        if e["name"] == name:
            return e
    raise KeyError(name)


def tensors_of(e: dict) -> list[str]:
    return list(e["inputs"]) + [e["output"]]


def rank_vars_of(wl: dict, e: dict) -> frozenset:
    return frozenset(v for t in tensors_of(e) for v in wl["tensors"][t]["rv"])


def all_tensor_names(wl: dict) -> list[str]:
    out = []
    for e in wl["einsums"]:
        for t in tensors_of(e):
            if t not in out:
                out.append(t)
    return out


def all_rank_vars(wl: dict) -> list[str]:
    out = []
    for e in wl["einsums"]:
        for t in tensors_of(e):
            for v in wl["tensors"][t]["rv"]:
                if v not in out:
                    out.append(v)
    return out


def base_env(wl: dict, einsum_name: str, extra_persistent=frozenset(), foreign: bool = True) -> dict:
    """Named sets visible for one Einsum: the documented base sets, one singleton per
    tensor / rank variable of the Einsum and (``foreign``) the empty set for tensors and
    rank variables that only occur in other Einsums."""
    e = einsum_by_name(wl, einsum_name)
    inputs = frozenset(e["inputs"])
    outputs = frozenset([e["output"]])
    all_ = inputs | outputs
    consumed = {t for x in wl["einsums"] for t in x["inputs"]}
    produced = {x["output"] for x in wl["einsums"]}
    users = {}
    for x in wl["einsums"]:
        for t in set(tensors_of(x)):
            users.setdefault(t, set()).add(x["name"])
    env = {
        "All": ("T", all_),
        "Tensors": ("T", all_),
        "Nothing": ("T", frozenset()),
        "Inputs": ("T", inputs),
        "Outputs": ("T", outputs),
        "Intermediates": ("T", frozenset(t for t in all_ if t in consumed and t in produced)),
        "Shared": ("T", frozenset(t for t in all_ if len(users[t]) > 1)),
        "Persistent": ("T", frozenset(t for t in all_ if wl["tensors"][t].get("persistent")) | (frozenset(extra_persistent) & all_)),
    }
    rvs = rank_vars_of(wl, e)
    if foreign:
        for t in all_tensor_names(wl):
            env[t] = ("T", frozenset())
        for v in all_rank_vars(wl):
            env[v] = ("R", frozenset())
    for t in all_:
        env[t] = ("T", frozenset([t]))
    for v in rvs:
        env[v] = ("R", frozenset([v]))
    return env


def universes(wl: dict, einsum_name: str) -> dict:
    e = einsum_by_name(wl, einsum_name)
    return {"T": frozenset(tensors_of(e)), "R": rank_vars_of(wl, e)}


def eval_tree(tree, env: dict, uni: dict, wl: dict):
    """-> (space, frozenset). Raises RefError on undefined names or mixed spaces."""
    op = tree[0]
    if op == "name":
        if tree[1] not in env:
            raise RefError(f"undefined name {tree[1]}")
        return env[tree[1]]
    if op == "not":
        sp, s = eval_tree(tree[1], env, uni, wl)
        return sp, uni[sp] - s
    if op == "rv":
        sp, s = eval_tree(tree[1], env, uni, wl)
        if sp != "T":
            raise RefError("rank_variables of a non-tensor set")
        return "R", frozenset(v for t in s for v in wl["tensors"][t]["rv"])
    (sa, a), (sb, b) = eval_tree(tree[1], env, uni, wl), eval_tree(tree[2], env, uni, wl)
    if sa != sb:
        raise RefError("mixed spaces")
    if op == "and":
        return sa, a & b
    if op == "or":
        return sa, a | b
    if op == "sub":
        return sa, a - b
    if op == "xor":
        return sa, (a | b) - (a & b)
    raise RefError(f"unknown op {op}")


def render(tree, mode: str = "full") -> str:
    """Tree -> expression string. ``full``: every binary sub-expression parenthesised;
    ``min``: only the parentheses Python's precedence (~ > - > & > ^ > |, left
    associative) requires."""
    op = tree[0]
    if op == "name":
        return tree[1]
    if op == "rv":
        inner = render(tree[1], mode)
        return (inner if tree[1][0] == "name" else f"({inner})") + ".rank_variables"
    if op == "not":
        inner = render(tree[1], mode)
        if tree[1][0] in ("name", "not", "rv"):
            return "~" + inner
        return f"~({inner})"
    l, r = render(tree[1], mode), render(tree[2], mode)
    if mode == "full":
        if tree[1][0] in _SYM:
            l = f"({l})"
        if tree[2][0] in _SYM:
            r = f"({r})"
    else:
        if _PREC[tree[1][0]] < _PREC[op]:
            l = f"({l})"
        if _PREC[tree[2][0]] <= _PREC[op]:
            r = f"({r})"
    return f"{l} {_SYM[op]} {r}"


def depth(tree) -> int:
    if tree[0] == "name":
        return 0
    return 1 + max(depth(t) for t in tree[1:])


def ops_of(tree) -> set:
    if tree[0] == "name":
        return set()
    out = {tree[0]}
    for t in tree[1:]:
        out |= ops_of(t)
    return out


def names_of(tree) -> set:
    if tree[0] == "name":
        return {tree[1]}
    out = set()
    for t in tree[1:]:
        out |= names_of(t)
    return out


def eval_key_dict(items, env: dict, uni: dict, wl: dict):
    """A dictionary keyed by set expressions. ``items``: list of (tree, value); a tree may
    mention the name ``Other`` (at most one key does).  Documented semantics: ``Other``
    resolves to everything (of All) not covered by the other keys; keys must be disjoint.

    -> ("ok", {tensor: value}, [sets per key])  or  ("overlap", None, [sets per key])
    """
    other_idx = [i for i, (t, _) in enumerate(items) if "Other" in names_of(t)]
    if len(other_idx) > 1:
        return "many-other", None, []
    sets = [None] * len(items)
    covered = frozenset()
    for i, (t, _) in enumerate(items):
        if i in other_idx:
            continue
        sp, s = eval_tree(t, env, uni, wl)
        if sp != "T":
            raise RefError("non-tensor key")
        sets[i] = s
        covered |= s
    for i in other_idx:
        env2 = dict(env)
        env2["Other"] = ("T", env["All"][1] - covered)
        sp, s = eval_tree(items[i][0], env2, uni, wl)
        sets[i] = s
    for i in range(len(items)):
        for j in range(i + 1, len(items)):
            if sets[i] & sets[j]:
                return "overlap", None, sets
    mapping = {}
    for (t, v), s in zip(items, sets):
        for x in s:
            mapping[x] = v
    return "ok", mapping, sets
