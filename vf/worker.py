"""Worker process: runs one shard of one property and writes a partial result.

usage: python -m vf.worker <PROP> <shard.json> <out.json>
"""

from __future__ import annotations

import importlib
import json
import os
import sys
import traceback


def main(argv):
    prop, shard_path, out_path = argv[1:4]
    shard = json.load(open(shard_path))
    from vf.core import Collector, HarnessError, Violation

    col = Collector(known_keys=set(shard.get("_known_keys", ())), budget_s=shard.get("_budget_s"))
    try:
        import accelforge

        want = os.path.abspath(os.environ.get("VF_REPO", "/repo"))
        if not os.path.abspath(accelforge.__file__).startswith(want + os.sep):
            raise HarnessError(f"accelforge imported from {accelforge.__file__}, expected under {want}")
        mod = importlib.import_module(f"vf.props.{prop.lower()}")
        if shard.get("_kind") == "replay":
            for item in shard["items"]:
                desc = item["descriptor"]
                try:
                    mod.replay(desc, col)
                    col.extra.setdefault("replayed_ok", []).append(item["name"])
                except Violation as v:
                    col.failures.append(
                        {"descriptor": desc, "message": v.message, "key": v.key, "replay_of": item["name"]}
                    )
        else:
            mod.run_shard(shard, col)
    except HarnessError as e:
        col.errors.append("HarnessError: " + str(e))
    except BaseException:  # noqa: BLE001
        col.errors.append(traceback.format_exc())
    with open(out_path, "w") as f:
        json.dump(col.to_json(), f)


if __name__ == "__main__":
    main(sys.argv)
    sys.stdout.flush()
    os._exit(0)  # do not wait for stray loky/joblib workers
