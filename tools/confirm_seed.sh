#!/bin/bash
# tools/confirm_seed.sh <PROP> [checks to run, default PROP]  -- confirm a seeded change in /tmp/seed_<PROP>
P=$1; shift; CHECKS=${@:-$P}
WT=/tmp/seed_$P; p=$(echo $P | tr A-Z a-z)
cd $WT || exit 2
git diff -- accelforge > /tmp/seed_$P.patch
[ -s /tmp/seed_$P.patch ] || { echo "no source change in $WT"; exit 2; }
echo "== demo WITH change"; (PYTHONPATH=$WT timeout 900 /venv/bin/python demo_$p.py > /tmp/seed_${P}_with.txt 2>&1; echo "rc=$?")
git checkout -- accelforge
echo "== demo WITHOUT change"; (PYTHONPATH=$WT timeout 900 /venv/bin/python demo_$p.py > /tmp/seed_${P}_without.txt 2>&1; echo "rc=$?")
git apply /tmp/seed_$P.patch
mkdir -p /verif/seeded/$P
cp /tmp/seed_$P.patch /verif/seeded/$P/patch.diff; cp demo_$p.py /verif/seeded/$P/
tail -4 /tmp/seed_${P}_with.txt > /verif/seeded/$P/demo_with_change.txt; tail -4 /tmp/seed_${P}_without.txt > /verif/seeded/$P/demo_without_change.txt
cd /verif
for c in $CHECKS; do
  echo "== check $c against the seeded tree"
  VF_REPO=$WT ./check $c --tier quick --jobs ${JOBS:-10} 2>&1 | grep -E "^(VIOLATION|  key|C[0-9]+ tier|HARNESS)" | cut -c1-160 | tee /verif/seeded/$P/check_$c.txt
done
