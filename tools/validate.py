#!/venv/bin/python
"""Validate MANIFEST.json and every evidence/*.json against the schemas."""
import json, sys
from pathlib import Path
import jsonschema
ROOT = Path(__file__).resolve().parents[1]
ms = json.loads((ROOT / "tools/MANIFEST.schema.json").read_text())
es = json.loads((ROOT / "tools/EVIDENCE.schema.json").read_text())
man = json.loads((ROOT / "MANIFEST.json").read_text())
jsonschema.validate(man, ms)
bad = 0
for c in man["checks"]:
    f = ROOT / "evidence" / (c["property_id"] + ".json")
    if not f.exists():
        print("MISSING", f); bad += 1; continue
    try:
        jsonschema.validate(json.loads(f.read_text()), es)
    except Exception as e:
        print("INVALID", f, str(e)[:300]); bad += 1
print("validated", len(man["checks"]), "checks; bad =", bad)
sys.exit(1 if bad else 0)
