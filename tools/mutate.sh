#!/bin/bash
# tools/mutate.sh <PROP> <file-relative-to-repo> <python-regex-old> <new> [tier]
# Applies one textual mutation (must match exactly once) in a scratch worktree and runs the check there.
set -u
PROP=$1; FILE=$2; OLD=$3; NEW=$4; TIER=${5:-quick}
WT=/tmp/wt_mut_$$
git -C /repo worktree add -q $WT HEAD || exit 3
/venv/bin/python - "$WT/$FILE" "$OLD" "$NEW" <<'PY'
import sys
p, old, new = sys.argv[1:4]
s = open(p).read()
n = s.count(old)
if n != 1:
    print(f"MUTATION-ERROR: pattern occurs {n} times"); sys.exit(4)
open(p, "w").write(s.replace(old, new))
PY
rc=$?
if [ $rc -eq 0 ]; then
  cd /verif && VF_REPO=$WT ./check $PROP --tier $TIER --jobs ${JOBS:-8} 2>&1 | grep -E "^(VIOLATION|  key=|C[0-9]+ tier|HARNESS|KNOWN)" | head -12
  echo "exit=${PIPESTATUS[0]}"
fi
git -C /repo worktree remove --force $WT
