#!/venv/bin/python
"""Regenerate MANIFEST.json from the property modules (vf/props/cNN.py with REGISTER=True)
and validate it against the schema.  Run from /verif:  /venv/bin/python tools/mkmanifest.py"""
import importlib
import json
import subprocess
import sys
from pathlib import Path

ROOT = Path(__file__).resolve().parents[1]
sys.path.insert(0, str(ROOT))

props = [json.loads(l) for l in (ROOT / "properties.jsonl").read_text().splitlines() if l.strip()]
BASE = "cd /repo && /venv/bin/python -m pytest -ra -q -p no:cacheprovider --timeout=900 --continue-on-collection-errors"

na_reasons = {}
p = ROOT / "not_applicable.json"
if p.exists():
    na_reasons = json.loads(p.read_text())

REGISTERED = set((ROOT / "registered.txt").read_text().split())
checks, na, engines = [], [], {}
for pr in props:
    pid = pr["id"]
    try:
        mod = importlib.import_module(f"vf.props.{pid.lower()}")
    except ModuleNotFoundError:
        mod = None
    if mod is None or pid not in REGISTERED or not getattr(mod, "REGISTER", False):
        na.append({"property_id": pid, "reason": na_reasons.get(pid, "check not built yet (work in progress); nothing is claimed for this property")})
        continue
    m = mod.MANIFEST
    c = {
        "property_id": pid,
        "quick_cmd": f"./check {pid} --tier quick",
        "thorough_cmd": f"./check {pid} --tier thorough",
        "evidence_file": f"/verif/evidence/{pid}.json",
        "replay_cmd_template": f"./check {pid} --replay {{path}}",
        "engine": "vf",
        "level_claimed": {"category": getattr(mod, "LEVEL", "exploration"), "text": m["level_text"],
                          "design_ref": m.get("design_ref", f"DESIGN.md §5 {pid}")},
        "level_note": m["level_note"],
        "technique": m["technique"],
    }
    checks.append(c)

src_commits = []
hp = ROOT / "hooks.json"
hooks = {"guard": "ACCELFORGE_VERIF", "enable": "checks export ACCELFORGE_VERIF=1 (accelforge is an editable install; no rebuild needed)",
         "baseline_off_cmd": BASE, "source_commits": src_commits, "add_only": True}
if hp.exists():
    hooks.update(json.loads(hp.read_text()))

man = {
    "version": 1,
    "setup_cmd": "/venv/bin/python -c 'import hypothesis' 2>/dev/null || /venv/bin/pip install --no-index --find-links /opt/veriftools/wheels hypothesis",
    "hooks": hooks,
    "engines": [{"name": "vf", "path": "/verif/vf", "serves_properties": [c["property_id"] for c in checks],
                 "kind_free_text": "Hypothesis-driven property-based testing harness (sharded over 16 processes) with independent reference oracles; finite domains enumerated exhaustively"}],
    "checks": checks,
    "not_applicable": na,
    "notes": "All checks: ./check <ID> --tier quick|thorough; VERIF_SEED seeds every shard; exit 0 held / 1 VIOLATION / 2 harness error. See DESIGN.md.",
}
(ROOT / "MANIFEST.json").write_text(json.dumps(man, indent=1) + "\n")
import jsonschema
jsonschema.validate(man, json.loads(Path("/root/.vp/MANIFEST.schema.json").read_text()))
print("MANIFEST ok:", len(checks), "checks,", len(na), "not_applicable")
