#!/venv/bin/python
"""Run the repository's pinned test suite (guard off) and compare with BASELINE.json's
stable_pass list.  usage: tools/baseline.py [--repo /repo] [-n 12]"""
import argparse, json, os, subprocess, sys, tempfile, xml.etree.ElementTree as ET
ap = argparse.ArgumentParser(); ap.add_argument("--repo", default="/repo"); ap.add_argument("-n", default="12")
a = ap.parse_args()
base = json.load(open("/root/.vp/BASELINE.json"))
want = set(base["stable_pass"])
out = tempfile.mkdtemp(prefix="baseline_")
xmlf = os.path.join(out, "junit.xml")
env = {k: v for k, v in os.environ.items() if not k.startswith("ACCELFORGE_VERIF")}
env["PYTHONPATH"] = a.repo
cmd = ["/venv/bin/python", "-m", "pytest", "-ra", "-q", "-p", "no:cacheprovider", "--timeout=900",
       "--continue-on-collection-errors", f"--junitxml={xmlf}"] + (["-n", a.n] if a.n != "0" else [])
r = subprocess.run(cmd, cwd=a.repo, env=env, stdout=open(os.path.join(out, "log.txt"), "w"), stderr=subprocess.STDOUT)
passed = set()
for tc in ET.parse(xmlf).getroot().iter("testcase"):
    if not any(ch.tag in ("failure", "error", "skipped") for ch in tc):
        passed.add(f"{tc.get('classname')}::{tc.get('name')}")
missing = sorted(want - passed)
print(f"passed={len(passed)} stable_pass={len(want)} missing_from_pass={len(missing)} log={out}/log.txt")
for m in missing[:40]:
    print("  NOT PASSING:", m)
sys.exit(1 if missing else 0)
