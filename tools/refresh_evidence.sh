#!/bin/bash
# Re-run every registered quick check against /repo and rewrite its evidence file.
cd "$(dirname "$0")/.."
rc=0
for p in $(cat registered.txt); do
  out=$(./check $p --tier quick ${JOBS:+--jobs $JOBS} 2>&1); r=$?
  echo "$out" | grep -E "^(VIOLATION|KNOWN-FINDING|HARNESS-ERROR|C[0-9]+ tier)" | cut -c1-220
  [ $r -ne 0 ] && rc=1
done
/venv/bin/python tools/validate.py || rc=1
exit $rc
